package markdown

import (
	"github.com/yuin/goldmark/ast"
	extast "github.com/yuin/goldmark/extension/ast"
	"github.com/yuin/goldmark/text"
	"github.com/zerx-lab/wordZero/pkg/document"
)

// C19 (renderer half): the Word renderer on bounded goldmark ASTs built with goldmark's own
// constructors. Block kinds, inline kinds, heading levels and options are chosen by the solver;
// leaf texts are semi-symbolic words over a..z held in the source buffer the AST refers to.

func zzhWordC19(n int) string {
	v := zzvByteString(n)
	zzvAssume(len(v) > 0)
	for i := 0; i < len(v); i++ {
		zzvAssume(v[i] >= 'a' && v[i] <= 'z')
	}
	return v
}

type zzhSrc struct {
	buf []byte
}

func (s *zzhSrc) add(t string) text.Segment {
	start := len(s.buf)
	s.buf = append(s.buf, t...)
	return text.NewSegment(start, len(s.buf))
}

type zzhC19Run struct {
	text                       string
	bold, italic, code, strike bool
}

// zzhInline appends one solver-chosen inline node to parent and describes the run(s) it must become.
func zzhInline(src *zzhSrc, parent ast.Node, kinds int) []zzhC19Run {
	t := zzhWordC19(1)
	switch zzvChoice(kinds) {
	case 0:
		parent.AppendChild(parent, ast.NewTextSegment(src.add(t)))
		return []zzhC19Run{{text: t}}
	case 1:
		lv := 1 + zzvChoice(2)
		em := ast.NewEmphasis(lv)
		em.AppendChild(em, ast.NewTextSegment(src.add(t)))
		parent.AppendChild(parent, em)
		return []zzhC19Run{{text: t, italic: lv == 1, bold: lv == 2}}
	case 2:
		cs := ast.NewCodeSpan()
		cs.AppendChild(cs, ast.NewTextSegment(src.add(t)))
		parent.AppendChild(parent, cs)
		return []zzhC19Run{{text: t, code: true}}
	case 3:
		ln := ast.NewLink()
		ln.Destination = []byte("http://x")
		ln.AppendChild(ln, ast.NewTextSegment(src.add(t)))
		parent.AppendChild(parent, ln)
		return []zzhC19Run{{text: t}}
	case 4:
		st := extast.NewStrikethrough()
		st.AppendChild(st, ast.NewTextSegment(src.add(t)))
		parent.AppendChild(parent, st)
		return []zzhC19Run{{text: t, strike: true}}
	case 6:
		// the parser's form of a soft break right after an inline element: an empty text node
		// that carries the soft-break flag
		tn := ast.NewTextSegment(src.add(""))
		tn.SetSoftLineBreak(true)
		parent.AppendChild(parent, tn)
		return []zzhC19Run{{text: " "}}
	default:
		// a text node that ends in a soft line break: rendered as its text followed by a blank
		tn := ast.NewTextSegment(src.add(t))
		tn.SetSoftLineBreak(true)
		parent.AppendChild(parent, tn)
		return []zzhC19Run{{text: t}, {text: " "}}
	}
}

func zzhVisible(rs []zzhC19Run) string {
	s := ""
	for _, r := range rs {
		s += r.text
	}
	return s
}

func zzhRunsText(p *document.Paragraph) string {
	s := ""
	for _, r := range p.Runs {
		s += r.Text.Content
	}
	return s
}

func zzhRenderer(src *zzhSrc) (*WordRenderer, *document.Document) {
	d := document.New()
	opts := DefaultOptions()
	opts.EnableMath = false
	opts.EnableTables = true
	opts.GenerateTOC = zzvBool()
	opts.TOCMaxLevel = 3
	return &WordRenderer{doc: d, opts: opts, source: src.buf}, d
}

// Headings and paragraphs: visible text in block order, heading level -> heading style of that
// level, inline kinds -> run formatting.
func ZZH_C19_HeadingsAndParagraphs() {
	src := &zzhSrc{}
	doc := ast.NewDocument()
	n := zzvBound("blocks", 2, 3)
	type want struct {
		heading int
		runs    []zzhC19Run
	}
	var wants []want
	for i := 0; i < n; i++ {
		if zzvBool() {
			lv := 1 + zzvChoice(6)
			h := ast.NewHeading(lv)
			runs := zzhInline(src, h, 5) // headings are single lines: no soft break
			doc.AppendChild(doc, h)
			wants = append(wants, want{heading: lv, runs: runs})
		} else {
			p := ast.NewParagraph()
			runs := zzhInline(src, p, 6)
			if zzvBool() {
				runs = append(runs, zzhInline(src, p, 7)...)
			}
			doc.AppendChild(doc, p)
			wants = append(wants, want{runs: runs})
		}
	}
	r, d := zzhRenderer(src)
	zzvAssert(r.Render(doc) == nil, "rendering succeeds")
	var paras []*document.Paragraph
	for _, e := range d.Body.Elements {
		if p, ok := e.(*document.Paragraph); ok {
			paras = append(paras, p)
		}
	}
	zzvAssert(len(paras) == len(wants), "one paragraph per block, in block order")
	if len(paras) != len(wants) {
		return
	}
	for i, w := range wants {
		p := paras[i]
		if w.heading > 0 {
			zzvAssert(zzhRunsText(p) == zzhVisible(w.runs), "the visible text of every block is kept, in order")
			st := ""
			if p.Properties != nil && p.Properties.ParagraphStyle != nil {
				st = p.Properties.ParagraphStyle.Val
			}
			zzvAssert(st == "Heading"+zzvItoa(w.heading), "a heading maps to the heading style of its level")
			continue
		}
		// run formatting of a paragraph, character by character (how the text is cut into runs
		// is not part of the property): text, then bold/italic/strike/code of each character
		type fch struct {
			c                          string
			bold, italic, strike, code bool
		}
		var got, want []fch
		for _, r := range p.Runs {
			pr := r.Properties
			f := fch{bold: pr != nil && pr.Bold != nil, italic: pr != nil && pr.Italic != nil, strike: pr != nil && pr.Strike != nil,
				code: pr != nil && pr.FontFamily != nil && pr.FontFamily.ASCII == "Consolas"}
			t := r.Text.Content
			for k := 0; k < len(t); k++ {
				f.c = t[k : k+1]
				got = append(got, f)
			}
		}
		for _, wr := range w.runs {
			for k := 0; k < len(wr.text); k++ {
				want = append(want, fch{wr.text[k : k+1], wr.bold, wr.italic, wr.strike, wr.code})
			}
		}
		zzvAssert(len(got) == len(want), "the visible text of every block is kept, in order")
		if len(got) != len(want) {
			continue
		}
		for j := range want {
			zzvAssert(got[j].c == want[j].c, "the visible text of every block is kept, in order")
			if want[j].c == " " {
				continue // the formatting of a blank (soft break) shows nothing
			}
			zzvAssert(got[j].bold == want[j].bold && got[j].italic == want[j].italic, "emphasis maps to italic, strong to bold")
			zzvAssert(got[j].strike == want[j].strike, "strike-through maps to strike formatting")
			zzvAssert(got[j].code == want[j].code, "a code span maps to the code font")
		}
	}
	zzvReach("rendered")
}

// Tables keep their dimensions, cell text and column alignment, with or without body rows; a
// second table of the same document keeps its own.
func ZZH_C19_Tables() {
	src := &zzhSrc{}
	doc := ast.NewDocument()
	aligns := []extast.Alignment{extast.AlignLeft, extast.AlignCenter, extast.AlignRight, extast.AlignNone}
	type wantTable struct {
		rows, cols int
		al         []extast.Alignment
		texts      [][]string
	}
	var wants []wantTable
	nt := 1 + zzvChoice(2)
	for k := 0; k < nt; k++ {
		cols := 1 + zzvChoice(2)
		rows := zzvChoice(zzvBound("body_rows", 2, 3))
		if k > 0 {
			rows = 1
		}
		tbl := extast.NewTable()
		var al []extast.Alignment
		for c := 0; c < cols; c++ {
			al = append(al, aligns[zzvChoice(len(aligns))])
		}
		tbl.Alignments = al
		texts := [][]string{}
		mkRow := func(header bool) ast.Node {
			var row ast.Node
			if header {
				row = extast.NewTableHeader(extast.NewTableRow(al))
			} else {
				row = extast.NewTableRow(al)
			}
			var ts []string
			for c := 0; c < cols; c++ {
				cell := extast.NewTableCell()
				cell.Alignment = al[c]
				t := zzhWordC19(1)
				cell.AppendChild(cell, ast.NewTextSegment(src.add(t)))
				row.AppendChild(row, cell)
				ts = append(ts, t)
			}
			texts = append(texts, ts)
			return row
		}
		tbl.AppendChild(tbl, mkRow(true))
		for i := 0; i < rows; i++ {
			tbl.AppendChild(tbl, mkRow(false))
		}
		doc.AppendChild(doc, tbl)
		wants = append(wants, wantTable{rows, cols, al, texts})
	}
	r, d := zzhRenderer(src)
	zzvAssert(r.Render(doc) == nil, "rendering succeeds")
	tables := d.Body.GetTables()
	zzvAssert(len(tables) == len(wants), "a table becomes one table")
	if len(tables) != len(wants) {
		return
	}
	for k, w := range wants {
		t := tables[k]
		zzvAssert(t.GetRowCount() == w.rows+1 && t.GetColumnCount() == w.cols, "a table keeps its dimensions")
		for i := 0; i < w.rows+1 && i < t.GetRowCount(); i++ {
			for c := 0; c < w.cols && c < t.GetColumnCount(); c++ {
				got, err := t.GetCellText(i, c)
				zzvAssert(err == nil && got == w.texts[i][c], "a table keeps its cell text")
				if w.rows == 0 {
					continue // the renderer takes the alignments from the first body row
				}
				cell, err := t.GetCell(i, c)
				just := ""
				if err == nil && cell != nil && len(cell.Paragraphs) > 0 && cell.Paragraphs[0].Properties != nil && cell.Paragraphs[0].Properties.Justification != nil {
					just = cell.Paragraphs[0].Properties.Justification.Val
				}
				wantJust := "left" // also for columns without an alignment
				switch w.al[c] {
				case extast.AlignCenter:
					wantJust = "center"
				case extast.AlignRight:
					wantJust = "right"
				}
				zzvAssert(just == wantJust, "every table keeps the alignment of its own columns")
			}
		}
	}
	if nt == 2 {
		zzvReach("two tables")
	}
	zzvReach("table")
}

// Code blocks keep their lines; block quotes and list items keep their text; thematic breaks
// add no text.
func ZZH_C19_OtherBlocks() {
	src := &zzhSrc{}
	doc := ast.NewDocument()
	want := []string{}
	var codeLines []string
	switch zzvChoice(4) {
	case 0:
		// a fenced block (its lines are adjacent in the source), or an indented block / indented
		// fence (the indentation the parser strips sits in the source between the line segments)
		l1, l2 := zzhWordC19(2), zzhWordC19(2)
		var cb ast.Node
		pad := ""
		if zzvBool() {
			cb = ast.NewFencedCodeBlock(nil)
		} else {
			cb = ast.NewCodeBlock()
			pad = "    "
		}
		src.add(pad)
		cb.Lines().Append(src.add(l1 + "\n"))
		src.add(pad)
		cb.Lines().Append(src.add("  " + l2 + "\n"))
		doc.AppendChild(doc, cb)
		want = append(want, l1, "  "+l2)
		codeLines = []string{l1 + "\n", "  " + l2 + "\n"}
	case 1:
		bq := ast.NewBlockquote()
		p := ast.NewParagraph()
		t := zzhWordC19(2)
		p.AppendChild(p, ast.NewTextSegment(src.add(t)))
		bq.AppendChild(bq, p)
		doc.AppendChild(doc, bq)
		want = append(want, t)
	case 2:
		l := ast.NewList('-')
		if zzvBool() {
			l = ast.NewList('.')
			l.Start = 1
		}
		n := 1 + zzvChoice(2)
		for i := 0; i < n; i++ {
			li := ast.NewListItem(2)
			tb := ast.NewTextBlock()
			t := zzhWordC19(1)
			tb.AppendChild(tb, ast.NewTextSegment(src.add(t)))
			li.AppendChild(li, tb)
			l.AppendChild(l, li)
			want = append(want, t)
		}
		doc.AppendChild(doc, l)
	case 3:
		p := ast.NewParagraph()
		t := zzhWordC19(2)
		p.AppendChild(p, ast.NewTextSegment(src.add(t)))
		doc.AppendChild(doc, p)
		doc.AppendChild(doc, ast.NewThematicBreak())
		want = append(want, t)
	}
	r, d := zzhRenderer(src)
	zzvAssert(r.Render(doc) == nil, "rendering succeeds")
	all := ""
	for _, p := range d.Body.GetParagraphs() {
		all += zzhRunsText(p) + "|"
	}
	for _, w := range want {
		zzvAssert(zzvStrContains(all, w), "the text of code lines, quotes and list items is kept")
	}
	if codeLines != nil {
		ps := d.Body.GetParagraphs()
		zzvAssert(len(ps) == len(codeLines), "code keeps its lines: one paragraph per line")
		if len(ps) == len(codeLines) {
			for i, l := range codeLines {
				zzvAssert(zzhRunsText(ps[i]) == l, "code keeps its lines and indentation exactly")
			}
		}
	}
	zzvReach("blocks")
}
