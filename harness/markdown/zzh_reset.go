package markdown

func zzhPkgReset() {}
