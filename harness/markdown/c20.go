package markdown

import (
	"strings"

	"github.com/zerx-lab/wordZero/pkg/document"
)

// C20: Word-to-Markdown export keeps reading order and text.

// zzhText: a short text over letters, blank and '*' (characters the exporter looks at: blanks
// for emptiness, nothing else), possibly empty or blank-only.
func zzhText(max int) string {
	t := zzvByteString(max)
	for i := 0; i < len(t); i++ {
		c := t[i]
		zzvAssume((c >= 'a' && c <= 'z') || c == ' ' || c == '*')
	}
	return t
}

type zzhRunSpec struct {
	text                       string
	bold, italic, strike, code bool
}

func zzhRun(s zzhRunSpec) document.Run {
	r := document.Run{Text: document.Text{Content: s.text}}
	if s.bold || s.italic || s.strike || s.code {
		r.Properties = &document.RunProperties{}
		if s.bold {
			r.Properties.Bold = &document.Bold{}
		}
		if s.italic {
			r.Properties.Italic = &document.Italic{}
		}
		if s.strike {
			r.Properties.Strike = &document.Strike{}
		}
		if s.code {
			r.Properties.FontFamily = &document.FontFamily{ASCII: "Consolas"}
		}
	}
	return r
}

// zzhWantRun: the Markdown a run must become - its text, once, wrapped by the markers its
// formatting implies (innermost emphasis, then strike-through, then code).
func zzhWantRun(s zzhRunSpec, emph string) string {
	t := s.text
	if t == "" {
		return ""
	}
	switch {
	case s.bold && s.italic:
		t = "***" + t + "***"
	case s.bold:
		t = "**" + t + "**"
	case s.italic:
		t = emph + t + emph
	}
	if s.strike {
		t = "~~" + t + "~~"
	}
	if s.code {
		t = "`" + t + "`"
	}
	return t
}

func zzhOpts() *ExportOptions {
	o := DefaultExportOptions()
	o.UseGFMTables = zzvBool()
	o.UseSetext = zzvBool()
	if zzvBool() {
		o.EmphasisMarker = "_"
		o.BulletListMarker = "*"
	}
	if zzvBool() {
		o.WrapLongLines = true
		o.MaxLineLength = 3
	}
	return o
}

// Within a paragraph every run's text occurs once, in order, with the markers its formatting
// implies - for every combination of bold/italic/strike/code on every run.
func ZZH_C20_RunsOfAParagraph() {
	opts := zzhOpts()
	n := 1 + zzvChoice(zzvBound("runs", 2, 3))
	p := &document.Paragraph{}
	want := ""
	for i := 0; i < n; i++ {
		s := zzhRunSpec{text: zzhText(2), bold: zzvBool(), italic: zzvBool(), strike: zzvBool(), code: zzvBool()}
		p.Runs = append(p.Runs, zzhRun(s))
		want += zzhWantRun(s, opts.EmphasisMarker)
	}
	w := &MarkdownWriter{opts: opts}
	got := w.extractParagraphText(p)
	zzvAssert(got == want, "paragraph: every run's text is present exactly once, in order, with the markers its formatting implies")
	zzvReach("runs")
}

func zzhExport(opts *ExportOptions, els []interface{}) string {
	d := document.New()
	d.Body.Elements = els
	e := NewExporter(opts)
	s, err := e.ExportToString(d, opts)
	zzvAssert(err == nil, "export succeeds")
	return s
}

var zzhParaStyles = []string{"", "Heading1", "Heading2", "Heading7", "Quote", "CodeBlock"}

// The export of a body is the exports of its elements, each once, in body order - whatever the
// kinds (paragraph styles, list items, tables) and options. Element texts are fixed and
// distinct here (order and exactly-once do not depend on them); ZZH_C20_RunsOfAParagraph
// covers arbitrary run texts.
func ZZH_C20_BodyOrder() {
	opts := zzhOpts()
	n := zzvBound("body_elements", 2, 3)
	var els []interface{}
	want := ""
	tableSeen, paraAfterTable := false, false
	for i := 0; i < n; i++ {
		var el interface{}
		switch zzvChoice(3) {
		case 0:
			p := &document.Paragraph{Runs: []document.Run{zzhRun(zzhRunSpec{text: "p" + zzvItoa(i) + " x", bold: zzvBool()})}}
			if st := zzhParaStyles[zzvChoice(len(zzhParaStyles))]; st != "" {
				p.Properties = &document.ParagraphProperties{ParagraphStyle: &document.ParagraphStyle{Val: st}}
			}
			el = p
			paraAfterTable = paraAfterTable || tableSeen
		case 1:
			p := &document.Paragraph{Runs: []document.Run{zzhRun(zzhRunSpec{text: "l" + zzvItoa(i)})},
				Properties: &document.ParagraphProperties{NumberingProperties: &document.NumberingProperties{NumID: &document.NumID{Val: "1"}, ILevel: &document.ILevel{Val: "0"}}}}
			el = p
			paraAfterTable = paraAfterTable || tableSeen
		case 2:
			cell := func() document.TableCell {
				return document.TableCell{Paragraphs: []document.Paragraph{{Runs: []document.Run{zzhRun(zzhRunSpec{text: "c" + zzvItoa(i)})}}}}
			}
			t := &document.Table{Rows: []document.TableRow{{Cells: []document.TableCell{cell(), cell()}}}}
			if zzvBool() {
				t.Rows = append(t.Rows, document.TableRow{Cells: []document.TableCell{cell(), cell()}})
			}
			el = t
			tableSeen = true
		}
		els = append(els, el)
		want += zzhExport(opts, []interface{}{el})
	}
	if paraAfterTable {
		// all paragraphs are written before all tables: listed known finding
		zzvKnown("KF-C20-tables-after-paragraphs", "body: ")
	}
	got := zzhExport(opts, els)
	zzvAssert(got == want, "body: the export lists the elements once each, in body order")
	zzvKnownEnd("KF-C20-tables-after-paragraphs")
	zzvReach("body")
}

// The kind of block a paragraph becomes follows its style first: a heading stays a heading, a
// quote a quote, code code - also when the paragraph is numbered; only unstyled numbered
// paragraphs are list items.
func ZZH_C20_BlockKinds() {
	opts := DefaultExportOptions()
	st := zzhParaStyles[zzvChoice(len(zzhParaStyles))]
	p := &document.Paragraph{Runs: []document.Run{zzhRun(zzhRunSpec{text: "txt"})}, Properties: &document.ParagraphProperties{}}
	if st != "" {
		p.Properties.ParagraphStyle = &document.ParagraphStyle{Val: st}
	}
	numbered := zzvBool()
	if numbered {
		p.Properties.NumberingProperties = &document.NumberingProperties{NumID: &document.NumID{Val: "1"}, ILevel: &document.ILevel{Val: "0"}}
	}
	got := zzhExport(opts, []interface{}{p})
	switch st {
	case "Heading1":
		zzvAssert(got == "# txt\n\n", "kinds: a heading is exported as a heading of its level")
	case "Heading2":
		zzvAssert(got == "## txt\n\n", "kinds: a heading is exported as a heading of its level")
	case "Heading7":
		zzvAssert(got == "###### txt\n\n", "kinds: a heading is exported as a heading of its level")
	case "Quote":
		zzvAssert(got == "> txt\n\n", "kinds: a quote is exported as a quote")
	case "CodeBlock":
		zzvAssert(got == "```\ntxt\n```\n\n", "kinds: code is exported as a fenced block")
	default:
		if numbered {
			zzvAssert(got == "- txt\n", "kinds: an unstyled numbered paragraph is exported as a list item")
		} else {
			zzvAssert(got == "txt\n\n", "kinds: a plain paragraph is exported as a paragraph")
		}
	}
	zzvReach("kinds")
}

// Tables: every cell's text is present in the export exactly once, row by row and cell by cell in
// reading order - also when the rows do not hold the same number of cells (a merged header row
// is narrower than the rows below it, or the other way round), for every option set.
func ZZH_C20_TableCells() {
	opts := zzhOpts()
	nRows := 2 + zzvChoice(2)
	var rows []document.TableRow
	var texts []string
	for r := 0; r < nRows; r++ {
		nCells := 1 + zzvChoice(3)
		row := document.TableRow{}
		for c := 0; c < nCells; c++ {
			t := "r" + zzvItoa(r) + "c" + zzvItoa(c) + "x"
			row.Cells = append(row.Cells, document.TableCell{Paragraphs: []document.Paragraph{{Runs: []document.Run{zzhRun(zzhRunSpec{text: t})}}}})
			texts = append(texts, t)
		}
		rows = append(rows, row)
	}
	got := zzhExport(opts, []interface{}{&document.Table{Rows: rows}})
	pos := -1
	for _, t := range texts {
		p := strings.Index(got, t)
		zzvAssert(p >= 0 && strings.Index(got[p+len(t):], t) < 0, "table: every cell's text is present exactly once")
		zzvAssert(p > pos, "table: cell texts appear in reading order")
		pos = p
	}
	zzvReach("table cells")
}
