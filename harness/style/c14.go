package style

// C14: style inheritance resolves to the nearest definition, terminates, never mutates;
// a cloned registry is independent.

const zzhNAttr = 18

// zzhSet gives style st a value for attribute k (0..9 paragraph level, 10..17 character level).
func zzhSet(st *Style, k int, v string) {
	if k < 10 {
		if st.ParagraphPr == nil {
			st.ParagraphPr = &ParagraphProperties{}
		}
		p := st.ParagraphPr
		switch k {
		case 0:
			p.Spacing = &Spacing{Before: v, After: v, Line: v, LineRule: v}
		case 1:
			p.Indentation = &Indentation{FirstLine: v, Left: v, Right: v}
		case 2:
			p.Justification = &Justification{Val: v}
		case 3:
			p.ParagraphBorder = &ParagraphBorder{Top: &ParagraphBorderLine{Val: v, Color: v, Sz: v, Space: v}}
		case 4:
			p.Shading = &Shading{Fill: v, Val: v}
		case 5:
			p.KeepNext = &KeepNext{}
		case 6:
			p.KeepLines = &KeepLines{}
		case 7:
			p.PageBreak = &PageBreak{}
		case 8:
			p.OutlineLevel = &OutlineLevel{Val: v}
		case 9:
			p.SnapToGrid = &SnapToGrid{Val: v}
		}
		return
	}
	if st.RunPr == nil {
		st.RunPr = &RunProperties{}
	}
	r := st.RunPr
	switch k {
	case 10:
		r.Bold = &Bold{}
	case 11:
		r.Italic = &Italic{}
	case 12:
		r.Underline = &Underline{Val: v}
	case 13:
		r.Strike = &Strike{}
	case 14:
		r.FontSize = &FontSize{Val: v}
	case 15:
		r.Color = &Color{Val: v}
	case 16:
		r.FontFamily = &FontFamily{ASCII: v, EastAsia: v, HAnsi: v, CS: v}
	case 17:
		r.Highlight = &Highlight{Val: v}
	}
}

// zzhGet reads attribute k of a (resolved) style: present?, value ("" for the flag elements).
func zzhGet(st *Style, k int) (bool, string) {
	if k < 10 {
		p := st.ParagraphPr
		if p == nil {
			return false, ""
		}
		switch k {
		case 0:
			if p.Spacing != nil {
				return true, p.Spacing.Before + "|" + p.Spacing.After + "|" + p.Spacing.Line + "|" + p.Spacing.LineRule
			}
		case 1:
			if p.Indentation != nil {
				return true, p.Indentation.FirstLine + "|" + p.Indentation.Left + "|" + p.Indentation.Right
			}
		case 2:
			if p.Justification != nil {
				return true, p.Justification.Val
			}
		case 3:
			if p.ParagraphBorder != nil {
				if t := p.ParagraphBorder.Top; t != nil {
					return true, t.Val + "|" + t.Color + "|" + t.Sz + "|" + t.Space
				}
				return true, "<no top>"
			}
		case 4:
			if p.Shading != nil {
				return true, p.Shading.Fill + "|" + p.Shading.Val
			}
		case 5:
			return p.KeepNext != nil, ""
		case 6:
			return p.KeepLines != nil, ""
		case 7:
			return p.PageBreak != nil, ""
		case 8:
			if p.OutlineLevel != nil {
				return true, p.OutlineLevel.Val
			}
		case 9:
			if p.SnapToGrid != nil {
				return true, p.SnapToGrid.Val
			}
		}
		return false, ""
	}
	r := st.RunPr
	if r == nil {
		return false, ""
	}
	switch k {
	case 10:
		return r.Bold != nil, ""
	case 11:
		return r.Italic != nil, ""
	case 12:
		if r.Underline != nil {
			return true, r.Underline.Val
		}
	case 13:
		return r.Strike != nil, ""
	case 14:
		if r.FontSize != nil {
			return true, r.FontSize.Val
		}
	case 15:
		if r.Color != nil {
			return true, r.Color.Val
		}
	case 16:
		if f := r.FontFamily; f != nil {
			return true, f.ASCII + "|" + f.EastAsia + "|" + f.HAnsi + "|" + f.CS
		}
	case 17:
		if r.Highlight != nil {
			return true, r.Highlight.Val
		}
	}
	return false, ""
}

// zzhSetSub overwrites the second sub-field of a multi-field element.
func zzhSetSub(st *Style, k int, sub string) {
	switch k {
	case 0:
		st.ParagraphPr.Spacing.After = sub
	case 1:
		st.ParagraphPr.Indentation.Left = sub
	case 3:
		st.ParagraphPr.ParagraphBorder.Top.Color = sub
	case 4:
		st.ParagraphPr.Shading.Val = sub
	case 16:
		st.RunPr.FontFamily.EastAsia = sub
	}
}

func zzhWantSub(k int, v, sub string) string {
	switch k {
	case 0, 3, 16:
		return v + "|" + sub + "|" + v + "|" + v
	case 1:
		return v + "|" + sub + "|" + v
	case 4:
		return v + "|" + sub
	}
	return zzhWant(k, v)
}

func zzhWant(k int, v string) string {
	switch k {
	case 0, 3, 16:
		return v + "|" + v + "|" + v + "|" + v
	case 1:
		return v + "|" + v + "|" + v
	case 4:
		return v + "|" + v
	case 5, 6, 7, 10, 11, 13:
		return ""
	}
	return v
}

var zzhIDs = []string{"s0", "s1", "s2", "s3"}

// zzhGraph picks the based-on id of style i among: none, every style id (self and cycles
// included), a missing id.
func zzhGraph(n int) []string {
	parents := make([]string, n)
	for i := 0; i < n; i++ {
		c := zzvChoice(n + 2)
		switch {
		case c == n:
			parents[i] = ""
		case c == n+1:
			parents[i] = "missing"
		default:
			parents[i] = zzhIDs[c]
		}
	}
	return parents
}

// zzhAcyclicFrom: walking based-on links from style q never revisits a style.
func zzhChain(parents []string, q int) (chain []int, cyclic bool) {
	seen := map[int]bool{}
	cur := q
	for {
		if seen[cur] {
			return chain, true
		}
		seen[cur] = true
		chain = append(chain, cur)
		p := parents[cur]
		nxt := -1
		for j := range parents {
			if zzhIDs[j] == p {
				nxt = j
			}
		}
		if nxt < 0 {
			return chain, false
		}
		cur = nxt
	}
}

// One registry shape (graph x presence pattern of the attribute under test x pattern of the
// other attributes), all 18 attributes tested in turn, every style queried.
func ZZH_C14_NearestDefinition() {
	n := zzvBound("styles", 3, 4)
	parents := zzhGraph(n)
	has := make([]bool, n) // presence of the attribute under test per style
	for i := range has {
		has[i] = zzvChoice(2) == 1
	}
	othersPresent := zzvChoice(2) == 1
	vals := make([]string, n)
	for i := range vals {
		vals[i] = zzvString()
	}
	// the second sub-field of a multi-field element under test is an independent string (may be
	// empty, may differ from its siblings): an element is inherited whole, never field by field
	subs := make([]string, n)
	for i := range subs {
		subs[i] = zzvString()
	}
	for k := 0; k < zzhNAttr; k++ {
		sm := &StyleManager{styles: make(map[string]*Style)}
		for i := 0; i < n; i++ {
			st := &Style{Type: "paragraph", StyleID: zzhIDs[i]}
			if parents[i] != "" {
				st.BasedOn = &BasedOn{Val: parents[i]}
			}
			for j := 0; j < zzhNAttr; j++ {
				if (j == k && has[i]) || (j != k && othersPresent) {
					zzhSet(st, j, vals[i]+zzvItoa(j))
				}
			}
			if has[i] {
				zzhSetSub(st, k, subs[i])
			}
			sm.AddStyle(st)
		}
		for q := 0; q < n; q++ {
			chain, cyclic := zzhChain(parents, q)
			zzvFreeze(sm, "registered styles during GetStyleWithInheritance")
			res := sm.GetStyleWithInheritance(zzhIDs[q])
			zzvUnfreeze()
			zzvAssert(res != nil, "resolve: a registered style resolves")
			if cyclic {
				continue // only termination, absence of crashes and non-mutation for cyclic graphs
			}
			zzvAssert(res.StyleID == zzhIDs[q], "resolve: result carries the queried id")
			// nearest definition of attribute k along the chain
			want, wantVal := false, ""
			for _, c := range chain {
				if has[c] {
					want, wantVal = true, zzhWantSub(k, vals[c]+zzvItoa(k), subs[c])
					break
				}
			}
			got, gotVal := zzhGet(res, k)
			zzvAssert(got == want, "resolve: an element is present exactly when the style or an ancestor defines it")
			if got && want {
				zzvAssert(gotVal == wantVal, "resolve: the nearest definition along the based-on chain wins")
			}
			// the other attributes: defined at every level or nowhere
			for j := 0; j < zzhNAttr; j++ {
				if j == k {
					continue
				}
				g, gv := zzhGet(res, j)
				zzvAssert(g == othersPresent, "resolve: other elements present exactly when defined")
				if g && othersPresent {
					zzvAssert(gv == zzhWant(j, vals[q]+zzvItoa(j)), "resolve: the style's own setting wins for the other elements")
				}
			}
		}
	}
	// unknown id
	sm := &StyleManager{styles: make(map[string]*Style)}
	zzvAssert(sm.GetStyleWithInheritance("nope") == nil, "resolve: unknown id yields none")
	zzvReach("resolved")
}

// Clone: structurally equal, shares no memory with the source.
func ZZH_C14_CloneIndependent() {
	n := 2
	sm := &StyleManager{styles: make(map[string]*Style)}
	for i := 0; i < n; i++ {
		st := &Style{Type: zzvString(), StyleID: zzhIDs[i], Default: zzvBool(), CustomStyle: zzvBool()}
		full := zzvChoice(2) == 1
		if full {
			st.Name = &StyleName{Val: zzvString()}
			st.BasedOn = &BasedOn{Val: zzvString()}
			st.Next = &Next{Val: zzvString()}
			v := zzvString()
			for j := 0; j < zzhNAttr; j++ {
				zzhSet(st, j, v)
			}
			st.ParagraphPr.ParagraphBorder.Left = &ParagraphBorderLine{Val: v}
			st.ParagraphPr.ParagraphBorder.Bottom = &ParagraphBorderLine{Color: v}
			st.ParagraphPr.ParagraphBorder.Right = &ParagraphBorderLine{Sz: v}
			st.TablePr = &TableProperties{TblInd: &TblIndent{W: v, Type: v},
				TblBorders: &TblBorders{Top: &TblBorder{Val: v, Sz: v, Space: v, Color: v}, Left: &TblBorder{Val: v}, Bottom: &TblBorder{Sz: v}, Right: &TblBorder{Space: v}, InsideH: &TblBorder{Color: v}, InsideV: &TblBorder{Val: v}},
				TblCellMar: &TblCellMargin{Top: &TblCellSpace{W: v, Type: v}, Left: &TblCellSpace{W: v}, Bottom: &TblCellSpace{Type: v}, Right: &TblCellSpace{W: v}}}
			st.TableRowPr = &TableRowProperties{}
			st.TableCellPr = &TableCellProperties{}
		}
		sm.AddStyle(st)
	}
	zzvFreeze(sm, "source registry during Clone")
	cl := sm.Clone()
	zzvUnfreeze()
	zzvAssert(cl != nil, "clone: returns a registry")
	zzvAssert(zzvDisjoint(cl, sm), "clone: shares no mutable memory with the source")
	zzvAssert(zzvSameShape(cl, sm), "clone: structurally equal to the source")
	zzvReach("cloned")
}
