package style

func zzhPkgReset() {}
