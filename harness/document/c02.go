package document

import "strings"

// C02: relationships and relationship references always resolve, uniquely - judged on the
// saved package (ToBytes through the archive stub, parts decoded with encoding/xml).

const zzhRelImage = "http://schemas.openxmlformats.org/officeDocument/2006/relationships/image"
const zzhRelOfficeDoc = "http://schemas.openxmlformats.org/officeDocument/2006/relationships/officeDocument"

type zzhRel struct{ id, typ, target, mode string }

func zzhRels(part []byte) ([]zzhRel, bool) {
	es, ok := zzhParse(part)
	if !ok || len(es) == 0 || es[0].Name != "Relationships" {
		return nil, false
	}
	var out []zzhRel
	for _, e := range es[1:] {
		if e.Name == "Relationship" {
			out = append(out, zzhRel{e.Attr("Id"), e.Attr("Type"), e.Attr("Target"), e.Attr("TargetMode")})
		}
	}
	return out, true
}

// zzhResolve: target of a relationship relative to the directory of its source part.
func zzhResolve(sourceDir, target string) string {
	if strings.HasPrefix(target, "/") {
		return target[1:]
	}
	return sourceDir + target
}

// zzhCheckRelPart: ids unique, internal targets present.
func zzhCheckRelPart(pkg map[string][]byte, relPart, sourceDir, what string) []zzhRel {
	data, has := pkg[relPart]
	zzvAssert(has, what+": the relationship part is present")
	if !has {
		return nil
	}
	rels, ok := zzhRels(data)
	zzvAssert(ok, what+": the relationship part decodes")
	for i := range rels {
		for j := i + 1; j < len(rels); j++ {
			zzvAssert(rels[i].id != rels[j].id, what+": relationship ids are unique within the part")
		}
		if rels[i].mode != "External" {
			_, present := pkg[zzhResolve(sourceDir, rels[i].target)]
			zzvAssert(present, what+": every internal relationship targets a part that is present")
		}
	}
	return rels
}

// zzhCheckPackageRels: package-level and document-level relationships, and every r:id / r:embed
// used in the main part resolves to a document relationship of the matching type.
func zzhCheckPackageRels(pkg map[string][]byte) {
	top := zzhCheckRelPart(pkg, "_rels/.rels", "", "package relationships")
	nMain := 0
	for _, r := range top {
		if r.typ == zzhRelOfficeDoc {
			nMain++
			zzvAssert(r.target == "word/document.xml", "package relationships: the office-document relationship locates the main part")
		}
	}
	zzvAssert(nMain == 1, "package relationships: exactly one office-document relationship")
	docRels := zzhCheckRelPart(pkg, "word/_rels/document.xml.rels", "word/", "document relationships")
	es, ok := zzhParse(pkg["word/document.xml"])
	zzvAssert(ok, "the main part decodes")
	find := func(id string) (string, int) {
		typ, n := "", 0
		for _, r := range docRels {
			if r.id == id {
				typ = r.typ
				n++
			}
		}
		return typ, n
	}
	for _, e := range es {
		switch e.Name {
		case "headerReference":
			typ, n := find(e.Attr("id"))
			zzvAssert(n == 1 && typ == zzhRelHeader, "a header reference resolves to exactly one header relationship of the document")
		case "footerReference":
			typ, n := find(e.Attr("id"))
			zzvAssert(n == 1 && typ == zzhRelFooter, "a footer reference resolves to exactly one footer relationship of the document")
		case "blip":
			typ, n := find(e.Attr("embed"))
			zzvAssert(n == 1 && typ == zzhRelImage, "a picture embed resolves to exactly one image relationship of the document")
		}
	}
}

var zzhImgNames = []string{"a.png", "a.png", "photo.jpg", "noext", "x.JPEG", "d.i.r/p.gif"}

// zzhRelOp performs one relationship-creating call chosen by the solver.
func zzhRelOp(d *Document, tbl **Table) {
	switch zzvChoice(9) {
	case 0:
		// arbitrary (possibly empty) image bytes; a call that reports an error must leave the
		// relationships as consistent as a successful one
		d.AddImageFromData([]byte(zzvString()), zzhImgNames[zzvChoice(len(zzhImgNames))], ImageFormatPNG, 10, 10, nil)
	case 1:
		_, err := d.AddImageFromDataWithoutElement(zzhPNG, zzhImgNames[zzvChoice(len(zzhImgNames))], ImageFormatJPEG, 10, 10, nil)
		zzvAssume(err == nil)
	case 2:
		if *tbl == nil {
			t, err := d.AddTable(&TableConfig{Rows: 1, Cols: 1, Width: 3000})
			zzvAssume(err == nil)
			*tbl = t
		}
		_, err := d.AddCellImageFromData(*tbl, 0, 0, zzhPNG, 20)
		zzvAssume(err == nil)
	case 3:
		zzvAssume(d.AddHeader(zzhKinds[zzvChoice(3)], zzvString()) == nil)
	case 4:
		zzvAssume(d.AddFooterWithPageNumber(zzhKinds[zzvChoice(3)], zzvString(), zzvBool()) == nil)
	case 5:
		d.AddListItem(zzvString(), nil)
	case 6:
		zzvKnown("KF-C02-notes-rel-package", "package relationships: every internal relationship targets")
		zzvAssume(d.AddFootnote(zzvString(), zzvString()) == nil)
	case 7:
		zzvKnown("KF-C02-notes-rel-package", "package relationships: every internal relationship targets")
		zzvAssume(d.AddEndnote(zzvString(), zzvString()) == nil)
	case 8:
		zzvAssume(d.SetFootnoteConfig(DefaultFootnoteConfig()) == nil)
	}
}

// API-built documents (the dense-id region): k operations from New(), then save.
func ZZH_C02_Built() {
	d := New()
	var tbl *Table
	k := zzvBound("rel_ops", 2, 3)
	for i := 0; i < k; i++ {
		zzhRelOp(d, &tbl)
	}
	data, err := d.ToBytes()
	zzvAssert(err == nil, "ToBytes succeeds")
	pkg, ok := zzhReadZipBytes(data)
	zzvAssert(ok, "the package is a readable archive")
	zzhCheckPackageRels(pkg)
	zzvReach("checked")
}

var zzhIDs = []string{"rId1", "rId2", "rId3", "rId4", "rId7", "R9", "rId02"}

// Opened packages with arbitrary pre-existing relationship ids (the sparse-id region), then
// one relationship-creating call, then save.
func ZZH_C02_Opened() {
	n := zzvChoice(zzvBound("existing_rels", 3, 4)) // 0..2 (3) existing image relationships
	ids := make([]string, n)
	rels := `<?xml version="1.0" encoding="UTF-8"?>` + "\n" + `<Relationships xmlns="` + zzhNSRel + `">`
	stylesID := zzhIDs[zzvChoice(len(zzhIDs))]
	rels += `<Relationship Id="` + stylesID + `" Type="http://schemas.openxmlformats.org/officeDocument/2006/relationships/styles" Target="styles.xml"/>`
	names := []string{"[Content_Types].xml", "_rels/.rels", "word/document.xml", "word/styles.xml", "word/_rels/document.xml.rels"}
	parts := map[string][]byte{"[Content_Types].xml": []byte(zzhContentTypesXML), "_rels/.rels": []byte(zzhTopRelsXML), "word/styles.xml": []byte(zzhStylesXML)}
	body := `<w:p><w:r><w:t>x</w:t></w:r></w:p>`
	dense := stylesID == "rId1"
	for i := 0; i < n; i++ {
		ids[i] = zzhIDs[zzvChoice(len(zzhIDs))]
		zzvAssume(ids[i] != stylesID)
		for j := 0; j < i; j++ {
			zzvAssume(ids[i] != ids[j]) // the opened package is valid
		}
		if ids[i] != "rId"+zzvItoa(i+2) {
			dense = false
		}
		media := "media/pic" + zzvItoa(i) + ".png"
		rels += `<Relationship Id="` + ids[i] + `" Type="` + zzhRelImage + `" Target="` + media + `"/>`
		names = append(names, "word/"+media)
		parts["word/"+media] = zzhPNG
	}
	rels += `</Relationships>`
	parts["word/_rels/document.xml.rels"] = []byte(rels)
	parts["word/document.xml"] = []byte(zzhDocXML(body))
	d, err := zzhOpen(names, parts)
	zzvAssert(err == nil && d != nil, "a valid package opens")
	if d == nil {
		return
	}
	if !dense {
		// ids are allocated as "rId<count+2>" and the styles relationship is re-added as rId1
		zzvKnown("KF-C02-id-allocation-sparse", "document relationships: relationship ids are unique|a header reference resolves|a footer reference resolves|a picture embed resolves")
	}
	var tbl *Table
	switch zzvChoice(3) {
	case 0:
		_, e := d.AddImageFromData(zzhPNG, "n.png", ImageFormatPNG, 10, 10, nil)
		zzvAssume(e == nil)
	case 1:
		zzvAssume(d.AddHeader(HeaderFooterTypeDefault, "h") == nil)
	case 2:
		// no edit: open and save only
	}
	_ = tbl
	data, err := d.ToBytes()
	zzvAssert(err == nil, "ToBytes succeeds")
	pkg, ok := zzhReadZipBytes(data)
	zzvAssert(ok, "the package is a readable archive")
	zzhCheckPackageRels(pkg)
	if dense {
		zzvReach("dense")
	} else {
		zzvReach("sparse")
	}
}

// Many relationships: an opened package whose document relationship part holds the dense ids
// rId1 (styles), rId2 .. rId(n+1) for n = 7..10 pictures - so the one- to two-digit boundary of
// the id numbers is crossed - is extended by two further relationship-creating calls and saved.
func ZZH_C02_ManyRelationships() {
	n := 7 + zzvChoice(4)
	rels := `<?xml version="1.0" encoding="UTF-8"?>` + "\n" + `<Relationships xmlns="` + zzhNSRel + `">`
	rels += `<Relationship Id="rId1" Type="http://schemas.openxmlformats.org/officeDocument/2006/relationships/styles" Target="styles.xml"/>`
	names := []string{"[Content_Types].xml", "_rels/.rels", "word/document.xml", "word/styles.xml", "word/_rels/document.xml.rels"}
	parts := map[string][]byte{"[Content_Types].xml": []byte(zzhContentTypesXML), "_rels/.rels": []byte(zzhTopRelsXML), "word/styles.xml": []byte(zzhStylesXML)}
	for i := 0; i < n; i++ {
		media := "media/image" + zzvItoa(i) + ".png"
		rels += `<Relationship Id="rId` + zzvItoa(i+2) + `" Type="` + zzhRelImage + `" Target="` + media + `"/>`
		names = append(names, "word/"+media)
		parts["word/"+media] = zzhPNG
	}
	rels += `</Relationships>`
	parts["word/_rels/document.xml.rels"] = []byte(rels)
	parts["word/document.xml"] = []byte(zzhDocXML(`<w:p><w:r><w:t>x</w:t></w:r></w:p>`))
	d, err := zzhOpen(names, parts)
	zzvAssert(err == nil && d != nil, "a valid package opens")
	if d == nil {
		return
	}
	for k := 0; k < 2; k++ {
		switch zzvChoice(3) {
		case 0:
			_, e := d.AddImageFromData(zzhPNG, "n.png", ImageFormatPNG, 10, 10, nil)
			zzvAssume(e == nil)
		case 1:
			zzvAssume(d.AddHeader([...]HeaderFooterType{HeaderFooterTypeDefault, HeaderFooterTypeFirst}[k], "h") == nil)
		case 2:
			zzvAssume(d.AddFooter([...]HeaderFooterType{HeaderFooterTypeDefault, HeaderFooterTypeFirst}[k], "f") == nil)
		}
	}
	data, err := d.ToBytes()
	zzvAssert(err == nil, "ToBytes succeeds")
	pkg, ok := zzhReadZipBytes(data)
	zzvAssert(ok, "the package is a readable archive")
	zzhCheckPackageRels(pkg)
	zzvReach("many relationships")
}
