package document

// Native twins of the document-package-specific intrinsics.

import (
	"bytes"
	"encoding/xml"
)

// zzvBodyChildren describes the children the real Body.MarshalXML emits, in order:
// the Go type name of each child ("Paragraph", "Table", "SectionProperties", ...),
// paragraphs as "Paragraph:<text of the first run>".
func zzvBodyChildren(b *Body) []string {
	data, err := xml.Marshal(b)
	if err != nil {
		return []string{"error"}
	}
	names := map[string]string{"p": "Paragraph", "tbl": "Table", "sectPr": "SectionProperties",
		"bookmarkStart": "BookmarkStart", "bookmarkEnd": "BookmarkEnd", "sdt": "SDT"}
	dec := xml.NewDecoder(bytes.NewReader(data))
	var out []string
	depth := 0
	cur := -1
	inFirstRun, runsSeen, inT := false, 0, false
	for {
		tok, err := dec.Token()
		if err != nil {
			break
		}
		switch t := tok.(type) {
		case xml.StartElement:
			depth++
			if depth == 2 {
				n, ok := names[t.Name.Local]
				if !ok {
					n = t.Name.Local
				}
				if n == "Paragraph" {
					n = "Paragraph:"
				}
				out = append(out, n)
				cur = len(out) - 1
				runsSeen = 0
			}
			if depth == 3 && t.Name.Local == "r" && out[cur] == "Paragraph:" || depth == 3 && t.Name.Local == "r" && runsSeen == 0 {
				runsSeen++
				inFirstRun = runsSeen == 1
			}
			if depth == 4 && inFirstRun && t.Name.Local == "t" {
				inT = true
			}
		case xml.EndElement:
			if depth == 3 && t.Name.Local == "r" {
				inFirstRun = false
			}
			if depth == 4 {
				inT = false
			}
			depth--
		case xml.CharData:
			if inT && cur >= 0 && len(out[cur]) >= 10 && out[cur][:10] == "Paragraph:" {
				out[cur] += string(t)
			}
		}
	}
	return out
}
