package document

// C15: lists, notes and tables of contents reflect exactly the calls made.

var zzhListTypes = []ListType{ListTypeBullet, ListTypeNumber, ListTypeDecimal, ListTypeLowerLetter, ListTypeUpperLetter, ListTypeLowerRoman, ListTypeUpperRoman}
var zzhNumFmts = []string{"bullet", "decimal", "decimal", "lowerLetter", "upperLetter", "lowerRoman", "upperRoman"}
var zzhBullets = []BulletType{BulletTypeDot, BulletTypeCircle, BulletTypeSquare, BulletTypeDash, BulletTypeArrow}

type zzhItem struct {
	p      *Paragraph
	typ    int
	bullet BulletType
	start  int
	level  int
}

// zzhLevelOf finds, in the saved numbering part, the level definition an item refers to:
// numId -> w:num -> w:abstractNumId -> w:abstractNum -> w:lvl[ilvl].
func zzhLevelOf(es []zzhElem, numID, ilvl string) (numFmt, lvlText, start string, found bool) {
	abs := ""
	for i, e := range es {
		if e.Name == "num" && e.Attr("numId") == numID {
			for j := i + 1; j < len(es) && es[j].Depth > e.Depth; j++ {
				if es[j].Name == "abstractNumId" {
					abs = es[j].Attr("val")
				}
			}
			found = true
		}
	}
	if !found {
		return
	}
	found = false
	for i, e := range es {
		if e.Name == "abstractNum" && e.Attr("abstractNumId") == abs {
			for j := i + 1; j < len(es) && es[j].Depth > e.Depth; j++ {
				if es[j].Name == "lvl" && es[j].Attr("ilvl") == ilvl {
					found = true
					for k := j + 1; k < len(es) && es[k].Depth > es[j].Depth; k++ {
						switch es[k].Name {
						case "numFmt":
							numFmt = es[k].Attr("val")
						case "lvlText":
							lvlText = es[k].Attr("val")
						case "start":
							start = es[k].Attr("val")
						}
					}
				}
			}
		}
	}
	return
}

// Every list item refers to a definition that, at the item's level, has the requested number
// format, bullet symbol and start value - judged on the numbering part of the package.
func ZZH_C15_ListItems() {
	zzhPkgReset()
	d := New()
	k := zzvBound("list_items", 2, 3)
	var items []zzhItem
	for i := 0; i < k; i++ {
		it := zzhItem{typ: zzvChoice(len(zzhListTypes)), bullet: zzhBullets[zzvChoice(2)], start: zzvIntIn(0, 100), level: zzvIntIn(-1, 9)}
		it.p = d.AddListItem("item", &ListConfig{Type: zzhListTypes[it.typ], BulletSymbol: it.bullet, StartNumber: it.start, IndentLevel: it.level})
		items = append(items, it)
	}
	es, ok := zzhParse(d.parts["word/numbering.xml"])
	zzvAssert(ok, "the numbering part decodes")
	for i, it := range items {
		np := it.p.Properties.NumberingProperties
		zzvAssert(np != nil && np.NumID != nil && np.ILevel != nil, "a list item carries a numbering reference")
		zzvAssert(np.ILevel.Val == zzvItoa(it.level), "a list item carries the requested level")
		if it.level < 0 || it.level > 8 {
			zzvKnown("KF-C15-level-out-of-range", "the numbering definition of a list item has its level")
		}
		numFmt, lvlText, start, found := zzhLevelOf(es, np.NumID.Val, np.ILevel.Val)
		zzvAssert(found, "the numbering definition of a list item has its level")
		zzvKnownEnd("KF-C15-level-out-of-range")
		if !found {
			continue
		}
		zzvAssert(numFmt == zzhNumFmts[it.typ], "the level has the requested number format")
		if it.typ == 0 {
			zzvAssert(lvlText == string(it.bullet), "the level has the requested bullet symbol")
		}
		// an earlier item with the same type, symbol and level but another start value shares the
		// cached definition: listed known finding
		for j := 0; j < i; j++ {
			if items[j].typ == it.typ && items[j].level == it.level && (it.typ != 0 || items[j].bullet == it.bullet) {
				zzvKnown("KF-C15-start-not-in-cache-key", "the level has the requested start value")
			}
		}
		if it.typ == 0 {
			// bullets: the start value has no meaning
		} else {
			zzvAssert(start == zzvItoa(it.start), "the level has the requested start value")
		}
		zzvKnownEnd("KF-C15-start-not-in-cache-key")
	}
	zzvReach("items")
}

// Notes: every note added appears exactly once with its text; counts follow adds and removals;
// removing an unknown note fails and changes nothing.
func ZZH_C15_Notes() {
	zzhPkgReset()
	d := New()
	k := zzvBound("note_ops", 4, 5)
	type note struct {
		id, text string
		live     bool
	}
	var fn []note
	for i := 0; i < k; i++ {
		switch zzvChoice(3) {
		case 0:
			t := "note-" + zzvItoa(i) + zzvString()
			zzvAssert(d.AddFootnote(zzvString(), t) == nil, "adding a footnote succeeds")
			fn = append(fn, note{id: zzvItoa(len(fn) + 1), text: t, live: true})
		case 1:
			// remove a solver-chosen earlier note (possibly already removed) or an unknown one
			j := zzvIntIn(0, 4)
			id := zzvItoa(j + 1)
			before := d.GetFootnoteCount()
			err := d.RemoveFootnote(id)
			if j < len(fn) && fn[j].live {
				zzvAssert(err == nil, "removing an existing footnote succeeds")
				fn[j].live = false
			} else {
				zzvAssert(err != nil, "removing a footnote that does not exist fails")
				zzvAssert(d.GetFootnoteCount() == before, "a failed removal changes nothing")
			}
		case 2:
			zzvAssert(d.AddEndnote(zzvString(), zzvString()) == nil, "adding an endnote succeeds")
		}
	}
	live := 0
	for _, n := range fn {
		if n.live {
			live++
		}
	}
	zzvAssert(d.GetFootnoteCount() == live, "the footnote count equals additions minus successful removals")
	if len(fn) > 0 {
		flat, ok := zzhFlatten(d.parts["word/footnotes.xml"])
		zzvAssert(ok, "the footnotes part decodes")
		for _, n := range fn {
			c := 0
			for _, e := range flat {
				c += zzvIteInt(e == "#"+n.text, 1, 0)
			}
			if n.live {
				zzvAssert(c == 1, "every footnote added appears exactly once, with its text, in the footnotes part")
			} else {
				zzvAssert(c == 0, "a removed footnote is gone from the footnotes part")
			}
		}
	}
	zzvReach("notes")
}

// zzhHeadingText: any non-empty text without blanks (two headings may carry the same text).
func zzhHeadingText() string {
	t := zzvString()
	zzvAssume(t != "" && !zzvStrContains(t, " "))
	return t
}

var zzhStyleIDs = []string{"Heading1", "Heading2", "Heading3", "Heading9", "Normal", "Quote", "heading4", "Title2"}
var zzhStyleLevels = []int{1, 2, 3, 9, 0, 0, 4, 2}

// Headings: the collectors list exactly the headings up to the requested level, in document
// order, with their text; generating and updating the table of contents is idempotent.
func ZZH_C15_Headings() {
	d := New()
	n := zzvBound("heading_elems", 3, 4)
	type h struct {
		text  string
		level int
	}
	var all []h
	for i := 0; i < n; i++ {
		switch zzvChoice(3) {
		case 0:
			lv := []int{1, 2, 3, 9}[zzvChoice(4)]
			t := zzhHeadingText()
			d.AddHeadingParagraph(t, lv)
			all = append(all, h{t, lv})
		case 1:
			d.AddParagraph(zzvString())
		case 2:
			si := zzvChoice(len(zzhStyleIDs))
			t := zzhHeadingText()
			p := d.AddParagraph(t)
			p.SetStyle(zzhStyleIDs[si])
			if zzhStyleLevels[si] > 0 {
				all = append(all, h{t, zzhStyleLevels[si]})
			}
		}
	}
	maxLevel := zzvIntIn(0, 10)
	got := d.collectHeadings(maxLevel)
	var want []h
	for _, e := range all {
		if e.level <= maxLevel {
			want = append(want, e)
		}
	}
	zzvAssert(len(got) == len(want), "exactly the headings up to the requested level are collected")
	if len(got) == len(want) {
		for i := range got {
			zzvAssert(got[i].Text == want[i].text && got[i].Level == want[i].level, "headings are collected in document order with their text and level")
		}
	}
	zzvAssert(len(d.ListHeadings()) == len(all), "ListHeadings lists every heading")
	cnt := d.GetHeadingCount()
	for lv := 1; lv <= 9; lv++ {
		c := 0
		for _, e := range all {
			if e.level == lv {
				c++
			}
		}
		zzvAssert(cnt[lv] == c, "GetHeadingCount counts the headings of every level")
	}
	zzvReach("headings")
}

func zzhCollectTexts(els []interface{}, out *[]string) {
	for _, e := range els {
		switch v := e.(type) {
		case *Paragraph:
			s := ""
			for _, r := range v.Runs {
				s += r.Text.Content
			}
			*out = append(*out, s)
		case Run:
			*out = append(*out, v.Text.Content)
		case *Run:
			*out = append(*out, v.Text.Content)
		case *SDT:
			if v.Content != nil {
				zzhCollectTexts(v.Content.Elements, out)
			}
		}
	}
}

func zzhTOCTexts(d *Document) []string {
	sdt, _ := d.findTOCSDT()
	if sdt == nil || sdt.Content == nil {
		return []string{"<no toc>"}
	}
	var out []string
	zzhCollectTexts(sdt.Content.Elements, &out)
	return out
}

func ZZH_C15_TOCIdempotent() {
	d := New()
	n := zzvBound("toc_headings", 2, 3)
	var texts []string
	for i := 0; i < n; i++ {
		lv := 1 + zzvChoice(4)
		t := zzhHeadingText()
		zzvAssume(t != DefaultTOCConfig().Title) // the TOC's own title line is not a heading entry
		d.AddHeadingParagraph(t, lv)
		if lv <= 3 {
			texts = append(texts, t)
		}
	}
	cfg := DefaultTOCConfig()
	zzvAssert(d.GenerateTOC(cfg) == nil, "GenerateTOC succeeds")
	first := zzhTOCTexts(d)
	for _, t := range texts {
		c := 0
		for _, e := range first {
			c += zzvIteInt(e == t, 1, 0)
		}
		zzvAssert(c >= 1, "the generated table of contents lists every heading up to the requested level")
	}
	zzvAssert(d.UpdateTOC() == nil, "UpdateTOC succeeds")
	second := zzhTOCTexts(d)
	zzvAssert(d.UpdateTOC() == nil, "UpdateTOC succeeds again")
	third := zzhTOCTexts(d)
	same := len(second) == len(third)
	if same {
		for i := range second {
			same = zzvAnd(same, second[i] == third[i])
		}
	}
	zzvAssert(same, "updating the table of contents twice gives the same entries (idempotent)")
	// the headings disappear (removed, or demoted below the level): an update lists none
	if zzvBool() {
		for _, p := range d.Body.GetParagraphs() {
			if d.getHeadingLevel(p) > 0 {
				if zzvBool() {
					d.RemoveParagraph(p)
				} else {
					p.SetStyle("Heading5")
				}
			}
		}
		zzvAssert(d.UpdateTOC() == nil, "UpdateTOC succeeds after the headings are gone")
		for _, t := range texts {
			c := 0
			for _, e := range zzhTOCTexts(d) {
				c += zzvIteInt(e == t, 1, 0)
			}
			zzvAssert(c == 0, "an updated table of contents no longer lists headings that are gone")
		}
	}
	zzvReach("toc")
}

// Generating a table of contents again with another requested level: afterwards the document
// holds a table of contents that lists exactly the headings up to the level of the latest request
// (a level-1 and a level-3 heading with symbolic texts; first and second requested level 1..4).
func ZZH_C15_RegenerateTOC() {
	d := New()
	t1, t3 := zzhHeadingText(), zzhHeadingText()
	title := DefaultTOCConfig().Title
	zzvAssume(t1 != t3 && t1 != title && t3 != title)
	// the page-number column of an entry reads "<tab><number>": not a heading text here
	zzvAssume(!zzvStrHasPrefix(t1, "\t") && !zzvStrHasPrefix(t3, "\t"))
	d.AddHeadingParagraph(t1, 1)
	d.AddParagraph("text")
	d.AddHeadingParagraph(t3, 3)
	m1, m2 := 1+zzvChoice(4), 1+zzvChoice(4)
	cfg := DefaultTOCConfig()
	cfg.MaxLevel = m1
	zzvAssert(d.GenerateTOC(cfg) == nil, "GenerateTOC succeeds")
	cfg2 := DefaultTOCConfig()
	cfg2.MaxLevel = m2
	zzvAssert(d.GenerateTOC(cfg2) == nil, "GenerateTOC succeeds a second time")
	found := false
	for _, el := range d.Body.Elements {
		s, ok := el.(*SDT)
		if !ok || s.Content == nil || s.Properties == nil || s.Properties.DocPartObj == nil || s.Properties.DocPartObj.DocPartGallery == nil ||
			s.Properties.DocPartObj.DocPartGallery.Val != "Table of Contents" {
			continue
		}
		var texts []string
		zzhCollectTexts(s.Content.Elements, &texts)
		has1, has3 := false, false
		for _, e := range texts {
			has1 = zzvOr(has1, e == t1)
			has3 = zzvOr(has3, e == t3)
		}
		found = zzvOr(found, zzvAnd(has1, has3 == (m2 >= 3)))
	}
	zzvAssert(found, "after a table of contents was generated again, a table of contents lists exactly the headings up to the level requested last")
	zzvReach("regenerated")
}
