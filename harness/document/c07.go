package document

import "bytes"

// C07 (sequential half): what is obtained for one document depends only on the calls made on
// that document.

type zzhDocOp struct {
	kind       int
	s1, s2     string
	listType   int
	start      int
}

func zzhPickDocOp() zzhDocOp {
	return zzhDocOp{kind: zzvChoice(6), s1: "t", s2: zzvString(), listType: zzvChoice(2), start: zzvIntIn(1, 9)}
}

// zzhSamePackage: same parts with the same content; the styles part is compared as the set of
// style ids it defines (its element order follows Go's map iteration order and differs from
// save to save of one and the same document).
func zzhSamePackage(a, b map[string][]byte) bool {
	if len(a) != len(b) {
		return false
	}
	ok := true
	for name, da := range a {
		db, present := b[name]
		if !present {
			return false
		}
		if name == "word/styles.xml" {
			sa, _ := zzhDefinedStyles(da)
			sb, _ := zzhDefinedStyles(db)
			if len(sa) != len(sb) {
				return false
			}
			for id := range sa {
				if !sb[id] {
					return false
				}
			}
			continue
		}
		ok = zzvAnd(ok, bytes.Equal(da, db))
	}
	return ok
}

func zzhApplyDocOp(d *Document, op zzhDocOp) {
	switch op.kind {
	case 0:
		d.AddParagraph(op.s1)
	case 1:
		d.AddListItem(op.s1, &ListConfig{Type: zzhListTypes[op.listType], BulletSymbol: BulletTypeDot, StartNumber: op.start, IndentLevel: 0})
	case 2:
		zzvAssume(d.AddFootnote(op.s1, op.s2) == nil)
	case 3:
		zzvAssume(d.AddEndnote(op.s1, op.s2) == nil)
	case 4:
		zzvAssume(d.AddHeader(HeaderFooterTypeDefault, op.s1) == nil)
	case 5:
		_, err := d.AddImageFromData([]byte(op.s2), "p.png", ImageFormatPNG, 1, 1, nil)
		zzvAssume(err == nil)
	}
}

type zzhObserved struct {
	pkg               map[string][]byte
	footnotes, endnotes int
	paragraphs        int
}

func zzhObserve(d *Document) zzhObserved {
	data, err := d.ToBytes()
	zzvAssert(err == nil, "ToBytes succeeds")
	pkg, ok := zzhReadZipBytes(data)
	zzvAssert(ok, "the package is a readable archive")
	return zzhObserved{pkg: pkg, footnotes: d.GetFootnoteCount(), endnotes: d.GetEndnoteCount(), paragraphs: len(d.Body.GetParagraphs())}
}

// The same calls on document A, once alone and once with calls on another document B made
// before and in between (fresh process state each time): A's package and accessor results are
// the same.
func ZZH_C07_SameAloneAndAmongOthers() {
	nA := zzvBound("ops_on_a", 2, 2)
	opsA := make([]zzhDocOp, nA)
	for i := range opsA {
		opsA[i] = zzhPickDocOp()
	}
	opB := zzhPickDocOp()

	// scenario 1: A alone
	zzhPkgReset()
	a1 := New()
	for _, op := range opsA {
		zzhApplyDocOp(a1, op)
	}
	alone := zzhObserve(a1)

	// scenario 2: B is created and edited before A exists and between A's calls
	zzhPkgReset()
	b := New()
	usesRegistry := func(op zzhDocOp) bool { return op.kind >= 1 && op.kind <= 3 }
	zzhApplyDocOp(b, opB)
	a2 := New()
	for i, op := range opsA {
		zzhApplyDocOp(a2, op)
		if i == 0 {
			zzhApplyDocOp(b, opB)
		}
	}
	among := zzhObserve(a2)

	regA := false
	for _, op := range opsA {
		regA = regA || usesRegistry(op)
	}
	// notes and numbering live in process-wide registries: listed known finding
	if regA && usesRegistry(opB) {
		zzvKnown("KF-C07-global-registries", "independence: the package")
	}
	zzvAssert(zzhSamePackage(alone.pkg, among.pkg), "independence: the package saved for a document does not depend on calls made on other documents")
	zzvKnownEnd("KF-C07-global-registries")
	if opB.kind == 2 || opB.kind == 3 {
		zzvKnown("KF-C07-global-registries", "independence: note counts")
	}
	zzvAssert(alone.footnotes == among.footnotes && alone.endnotes == among.endnotes, "independence: note counts of a document do not depend on other documents")
	zzvKnownEnd("KF-C07-global-registries")
	zzvAssert(alone.paragraphs == among.paragraphs, "independence: the body of a document does not depend on other documents")
	zzvReach("compared")
}

// Two documents never share mutable memory: whatever is reachable from one (body, relationship
// and content-type tables, parts, style registry with its predefined styles) is its own.
func ZZH_C07_DocumentsShareNoMemory() {
	zzhPkgReset()
	a := New()
	b := New()
	if zzvBool() {
		zzhApplyDocOp(a, zzhPickDocOp())
	}
	if zzvBool() {
		zzhApplyDocOp(b, zzhPickDocOp())
	}
	zzvAssertDisjoint(interface{}(a), interface{}(b), "two documents")
	// what a document saved earlier stays what it was when another document is saved
	dataA, err := a.ToBytes()
	zzvAssert(err == nil, "ToBytes succeeds")
	before, ok := zzhReadZipBytes(dataA)
	zzvAssert(ok, "the serialised bytes are a readable archive")
	_, err = b.ToBytes()
	zzvAssert(err == nil, "ToBytes succeeds")
	// the slice obtained for A is A's archive still (it must not alias memory that serialising
	// another document reuses)
	after, ok := zzhReadZipBytes(dataA)
	zzvAssert(ok && zzhSameParts(before, after), "two documents: bytes obtained for one document do not change when another document is serialised")
	zzvReach("disjoint")
}

// Documents rendered from one document template are documents of their own: two renderings share
// no mutable memory with each other or with the template's base document, and editing one of them
// (a further header/footer call, a paragraph, an image) leaves the base document and the other
// rendering exactly as they were. The base document holds headers/footers of solver-chosen kinds
// (so a rendering may redefine a kind the template already has), page settings and a table.
func ZZH_C07_RenderedDocumentsAreIndependent() {
	zzhPkgReset()
	base := New()
	base.AddParagraph(zzvString())
	kinds := [...]HeaderFooterType{HeaderFooterTypeDefault, HeaderFooterTypeFirst, HeaderFooterTypeEven}
	hk, fk := kinds[zzvChoice(3)], kinds[zzvChoice(3)]
	zzvAssume(base.AddHeader(hk, zzvString()) == nil)
	if zzvBool() {
		zzvAssume(base.AddFooter(fk, zzvString()) == nil)
	}
	zzvAssume(base.SetPageMargins(20, 20, 20, 20) == nil)
	_, err := base.AddTable(&TableConfig{Rows: 1, Cols: 2, Width: 3000})
	zzvAssume(err == nil)
	// the clone stage every rendering of a document template starts from (the substitution
	// passes that follow work on the clone only; their regexp passes over header parts are not
	// encoded)
	te := NewTemplateEngine()
	r1 := te.cloneDocument(base)
	r2 := te.cloneDocument(base)
	zzvAssert(r1 != nil && r2 != nil, "rendered documents: cloning the base document succeeds")
	if r1 == nil || r2 == nil {
		return
	}
	zzvAssertDisjoint(interface{}(r1), interface{}(r2), "two renderings")
	zzvAssertDisjoint(interface{}(r1), interface{}(base), "rendering and base document")
	snapBase, snap2 := zzvDeepCopy(base), zzvDeepCopy(r2)
	switch zzvChoice(4) {
	case 0:
		zzvAssume(r1.AddHeader(kinds[zzvChoice(3)], zzvString()) == nil)
	case 1:
		zzvAssume(r1.AddFooter(kinds[zzvChoice(3)], zzvString()) == nil)
	case 2:
		r1.AddParagraph(zzvString())
	case 3:
		_, err := r1.AddImageFromData(zzhPNG, "p.png", ImageFormatPNG, 3, 2, nil)
		zzvAssume(err == nil)
	}
	zzvAssert(zzvSameShape(snapBase, base), "rendered documents: editing a rendering leaves the template's base document as it was")
	zzvAssert(zzvSameShape(snap2, r2), "rendered documents: editing a rendering leaves the other rendering as it was")
	zzvReach("renderings independent")
}
