package document

// C05: Save reports success only for a completely written, faithful file.
//
// The write path runs against the I/O stubs (DESIGN.md §4): the fault mode is chosen by the
// solver; under "device full" the first failing write call is a symbolic Int. Natively the
// same harness saves to a real path that realises the fault (/dev/full, a path below a
// regular file, a directory) and reads the result back with archive/zip.

func ZZH_C05_SaveUnderFaults() {
	d := zzhSomeDoc()
	if zzvBool() {
		// parts carried over from an opened package: arbitrary content (possibly empty), and the
		// zero-length entry a directory record of the source archive becomes
		d.parts["customXml/item1.xml"] = []byte(zzvString())
		if zzvBool() {
			d.parts["word/"] = []byte{}
		}
		if zzvBool() {
			// a media part that only a header's own relationship part refers to
			d.parts["word/media/logo.png"] = []byte(zzvString())
		}
	}
	kind := zzvChoice(5)
	if kind == 3 && zzvBool() {
		// a part larger than the archive writer's buffer: natively the full device then fails
		// inside an entry's Write call, not only at Close (symbolically: arbitrary content)
		d.parts["customXml/blob.bin"] = []byte(zzvBlob())
	}
	path := zzvFaultPath(kind)
	err := d.Save(path)
	if kind != 0 && kind != 4 {
		zzvAssert(err != nil, "Save returns an error when the underlying writes fail")
		zzvReach("fault-reported")
		return
	}
	zzvAssert(err == nil, "Save succeeds when nothing fails")
	onDisk, ok := zzhReadZipFile(path)
	zzvAssert(ok, "the saved file is a complete, readable archive")
	data, err := d.ToBytes()
	zzvAssert(err == nil, "ToBytes succeeds")
	inMem, ok2 := zzhReadZipBytes(data)
	zzvAssert(ok2, "the serialised bytes are a readable archive")
	zzvAssert(zzhSameParts(onDisk, inMem), "Save and ToBytes agree on the parts and their content")
	for _, must := range []string{"[Content_Types].xml", "_rels/.rels", "word/document.xml", "word/styles.xml", "word/_rels/document.xml.rels"} {
		_, has := onDisk[must]
		zzvAssert(has, "the saved package contains the fixed parts")
	}
	if kind == 4 {
		zzvReach("saved over a longer existing file")
	}
	zzvReach("saved")
}
