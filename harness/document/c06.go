package document

import (
	"encoding/xml"

	"github.com/zerx-lab/wordZero/pkg/style"
)

// C06: opening never crashes or hangs, whatever the input.
//
// XML layer: every reader function of document.go is started on an arbitrary token stream that
// obeys only the contract of encoding/xml's Decoder (zzvTokenDecoder): token kinds chosen by the
// solver, element and attribute names symbolic strings (XML name syntax), attribute values and
// character data symbolic strings; the stream ends either with the closing tags of everything
// open and io.EOF or with a (sticky) syntax error. No panic may occur, and no reader may keep
// calling Token() after an error (it would never return).

// zzhTokens: n solver-chosen tokens, nesting kept consistent.
func zzhTokens(n int, maxAttrs int) []zzvTok {
	var toks []zzvTok
	depth := 0
	prevChar := false
	for i := 0; i < n; i++ {
		k := zzvChoice(4)
		t := zzvTok{Kind: k}
		switch k {
		case 0:
			t.Main = true
			t.Local = zzvString()
			na := zzvChoice(maxAttrs + 1)
			for a := 0; a < na; a++ {
				t.AttrMain = append(t.AttrMain, true)
				t.AttrLocal = append(t.AttrLocal, zzvString())
				t.AttrVal = append(t.AttrVal, zzvString())
			}
			depth++
		case 1:
			zzvAssume(depth > 0)
			depth--
		case 2:
			zzvAssume(!prevChar)
			t.Text = zzvString()
		}
		prevChar = k == 2
		toks = append(toks, t)
	}
	return toks
}

func zzhStart(local string) xml.StartElement {
	se := xml.StartElement{Name: xml.Name{Space: zzvMainNS, Local: local}}
	if zzvBool() {
		se.Attr = append(se.Attr, xml.Attr{Name: xml.Name{Space: zzvMainNS, Local: zzvString()}, Value: zzvString()})
	}
	return se
}

// zzhRead runs one reader on an arbitrary stream that follows its start element.
func zzhRead(outer []string, call func(d *Document, dec *xml.Decoder)) {
	n := zzvIntIn(0, zzvBound("tokens", 3, 4))
	toks := zzhTokens(n, 1)
	dec := zzvTokenDecoder(outer, toks, zzvBool())
	d := &Document{parts: map[string][]byte{}, Body: &Body{Elements: []interface{}{}}}
	call(d, dec)
	zzvReach("returned")
}

func ZZH_C06_Read_Body() {
	zzhRead([]string{"document", "body"}, func(d *Document, dec *xml.Decoder) { d.parseBodyElement(dec) })
}
func ZZH_C06_Read_DocumentElement() {
	zzhRead([]string{"document"}, func(d *Document, dec *xml.Decoder) { d.parseDocumentElement(dec) })
}
func ZZH_C06_Read_Paragraph() {
	zzhRead([]string{"document", "body", "p"}, func(d *Document, dec *xml.Decoder) { d.parseParagraph(dec, zzhStart("p")) })
}
func ZZH_C06_Read_ParagraphProperties() {
	zzhRead([]string{"body", "p", "pPr"}, func(d *Document, dec *xml.Decoder) { d.parseParagraphProperties(dec, &Paragraph{}) })
}
func ZZH_C06_Read_NumberingProperties() {
	zzhRead([]string{"p", "pPr", "numPr"}, func(d *Document, dec *xml.Decoder) { d.parseNumberingProperties(dec) })
}
func ZZH_C06_Read_Run() {
	zzhRead([]string{"body", "p", "r"}, func(d *Document, dec *xml.Decoder) { d.parseRun(dec, zzhStart("r")) })
}
func ZZH_C06_Read_RunProperties() {
	zzhRead([]string{"p", "r", "rPr"}, func(d *Document, dec *xml.Decoder) { d.parseRunProperties(dec, &Run{}) })
}
func ZZH_C06_Read_Table() {
	zzhRead([]string{"body", "tbl"}, func(d *Document, dec *xml.Decoder) { d.parseTable(dec, zzhStart("tbl")) })
}
func ZZH_C06_Read_TableProperties() {
	zzhRead([]string{"tbl", "tblPr"}, func(d *Document, dec *xml.Decoder) { d.parseTableProperties(dec, &Table{}) })
}
func ZZH_C06_Read_TableGrid() {
	zzhRead([]string{"tbl", "tblGrid"}, func(d *Document, dec *xml.Decoder) { d.parseTableGrid(dec, &Table{}) })
}
func ZZH_C06_Read_TableRow() {
	zzhRead([]string{"tbl", "tr"}, func(d *Document, dec *xml.Decoder) { d.parseTableRow(dec, zzhStart("tr")) })
}
func ZZH_C06_Read_TableRowProperties() {
	zzhRead([]string{"tr", "trPr"}, func(d *Document, dec *xml.Decoder) { d.parseTableRowProperties(dec) })
}
func ZZH_C06_Read_TableCell() {
	zzhRead([]string{"tbl", "tr", "tc"}, func(d *Document, dec *xml.Decoder) { d.parseTableCell(dec, zzhStart("tc")) })
}
func ZZH_C06_Read_TableCellProperties() {
	zzhRead([]string{"tc", "tcPr"}, func(d *Document, dec *xml.Decoder) { d.parseTableCellProperties(dec) })
}
func ZZH_C06_Read_TableBorders() {
	zzhRead([]string{"tblPr", "tblBorders"}, func(d *Document, dec *xml.Decoder) { d.parseTableBorders(dec) })
}
func ZZH_C06_Read_TableCellMargins() {
	zzhRead([]string{"tblPr", "tblCellMar"}, func(d *Document, dec *xml.Decoder) { d.parseTableCellMargins(dec) })
}
func ZZH_C06_Read_TableCellBorders() {
	zzhRead([]string{"tcPr", "tcBorders"}, func(d *Document, dec *xml.Decoder) { d.parseTableCellBorders(dec) })
}
func ZZH_C06_Read_TableCellMarginsCell() {
	zzhRead([]string{"tcPr", "tcMar"}, func(d *Document, dec *xml.Decoder) { d.parseTableCellMarginsCell(dec) })
}
func ZZH_C06_Read_SectionProperties() {
	zzhRead([]string{"body", "sectPr"}, func(d *Document, dec *xml.Decoder) { d.parseSectionProperties(dec, zzhStart("sectPr")) })
}
func ZZH_C06_Read_Drawing() {
	zzhRead([]string{"r", "drawing"}, func(d *Document, dec *xml.Decoder) { d.parseDrawingElement(dec, zzhStart("drawing")) })
}
func ZZH_C06_Read_InlineDrawing() {
	zzhRead([]string{"drawing", "inline"}, func(d *Document, dec *xml.Decoder) { d.parseInlineDrawing(dec, zzhStart("inline")) })
}
func ZZH_C06_Read_AnchorDrawing() {
	zzhRead([]string{"drawing", "anchor"}, func(d *Document, dec *xml.Decoder) { d.parseAnchorDrawing(dec, zzhStart("anchor")) })
}
func ZZH_C06_Read_Graphic() {
	zzhRead([]string{"inline", "graphic"}, func(d *Document, dec *xml.Decoder) { d.parseDrawingGraphic(dec, zzhStart("graphic")) })
}
func ZZH_C06_Read_GraphicData() {
	zzhRead([]string{"graphic", "graphicData"}, func(d *Document, dec *xml.Decoder) { d.parseGraphicData(dec, zzhStart("graphicData")) })
}
func ZZH_C06_Read_Pic() {
	zzhRead([]string{"graphicData", "pic"}, func(d *Document, dec *xml.Decoder) { d.parsePicElement(dec, zzhStart("pic")) })
}
func ZZH_C06_Read_NvPicPr() {
	zzhRead([]string{"pic", "nvPicPr"}, func(d *Document, dec *xml.Decoder) { d.parseNvPicPr(dec, zzhStart("nvPicPr")) })
}
func ZZH_C06_Read_BlipFill() {
	zzhRead([]string{"pic", "blipFill"}, func(d *Document, dec *xml.Decoder) { d.parseBlipFill(dec, zzhStart("blipFill")) })
}
func ZZH_C06_Read_SpPr() {
	zzhRead([]string{"pic", "spPr"}, func(d *Document, dec *xml.Decoder) { d.parseSpPr(dec, zzhStart("spPr")) })
}
func ZZH_C06_Read_Xfrm() {
	zzhRead([]string{"spPr", "xfrm"}, func(d *Document, dec *xml.Decoder) { d.parseXfrm(dec, zzhStart("xfrm")) })
}
func ZZH_C06_Read_Skip() {
	zzhRead([]string{"body", "x"}, func(d *Document, dec *xml.Decoder) { d.skipElement(dec, "x") })
}
func ZZH_C06_Read_ElementText() {
	zzhRead([]string{"r", "t"}, func(d *Document, dec *xml.Decoder) { d.readElementText(dec, "t") })
}

// zzhEditOpenedTable applies one solver-chosen structural edit to a table that came out of the
// reader. Column edits on a table whose grid is missing or does not match the cells of every row
// are the region of a listed known finding.
func zzhEditOpenedTable(t *Table) {
	regular := t.Grid != nil
	if regular {
		for r := range t.Rows {
			if len(t.Rows[r].Cells) != len(t.Grid.Cols) {
				regular = false
			}
		}
	}
	op := zzvChoice(6)
	if !regular && op >= 1 && op <= 3 {
		zzvKnown("KF-C06-column-edit-irregular-table", "panic:")
	}
	switch op {
	case 0:
		t.AppendRow(nil)
	case 1:
		t.AppendColumn(nil, 1000)
	case 2:
		t.InsertColumn(zzvIntIn(-1, 3), nil, 1000)
	case 3:
		t.DeleteColumn(zzvIntIn(-1, 3))
	case 4:
		t.MergeCellsHorizontal(0, 0, 1)
	case 5:
		t.InsertRow(zzvIntIn(-1, 2), nil)
	}
	if !regular && op >= 1 && op <= 3 {
		zzvKnownEnd("KF-C06-column-edit-irregular-table")
	}
}

// Whatever the body reader accepted can be read, edited and serialised without crashing.
func ZZH_C06_UseOpenedBody() {
	zzvFloatMag(40)
	n := zzvIntIn(0, zzvBound("tokens_use", 3, 4))
	toks := zzhTokens(n, 1)
	dec := zzvTokenDecoder([]string{"document", "body"}, toks, true)
	d := &Document{parts: map[string][]byte{}, Body: &Body{Elements: []interface{}{}},
		documentRelationships: &Relationships{}, styleManager: style.NewStyleManager()}
	if err := d.parseBodyElement(dec); err != nil {
		zzvReach("rejected")
		return
	}
	d.Body.GetParagraphs()
	for _, t := range d.Body.GetTables() {
		zzvAssert(t != nil, "the tables of an opened document are usable objects")
		if t == nil {
			continue
		}
		t.GetRowCount()
		t.GetColumnCount()
		t.GetCellText(0, 0)
		t.SetCellText(0, 0, "x")
		zzhEditOpenedTable(t)
	}
	d.GetPageSettings()
	d.AddParagraph("more")
	_, err := xml.Marshal(d.Body)
	zzvAssert(err == nil, "the body of an opened document serialises")
	zzvReach("used")
}

// The package level: solver-chosen shapes of the parts a ZIP may carry (missing, empty,
// truncated, unexpected root or namespace, unparsable auxiliary parts).
var zzhDocVariants = []string{
	"",
	"<",
	`<?xml version="1.0"?>`,
	`<w:document xmlns:w="` + zzhNSMain + `">`,
	`<w:document xmlns:w="` + zzhNSMain + `"/>`,
	`<w:document xmlns:w="` + zzhNSMain + `"><w:body>`,
	`<w:document xmlns:w="` + zzhNSMain + `"><w:body/></w:document>`,
	`<document><body><p/></body></document>`,
	`<w:document xmlns:w="urn:other"><w:body><w:p/></w:body></w:document>`,
	`<w:body xmlns:w="` + zzhNSMain + `"><w:p/></w:body>`,
	`<w:document xmlns:w="` + zzhNSMain + `"><w:body><w:p><w:r><w:t>x</w:t></w:r></w:p><w:tbl><w:tr><w:tc/></w:tr></w:tbl></w:body></w:document>`,
	`<w:document xmlns:w="` + zzhNSMain + `"><w:body><w:tbl><w:tblGrid><w:gridCol></w:tblGrid></w:tbl></w:body></w:document>`,
	`<w:document xmlns:w="` + zzhNSMain + `"><w:body><w:r><w:tbl/></w:r><w:sectPr><w:pgSz/></w:sectPr></w:body></w:document>`,
}
var zzhAuxVariants = []string{"", "<", "<x/>", `<?xml version="1.0"?><Types/>`}

func ZZH_C06_OpenPackage() {
	names := []string{}
	parts := map[string][]byte{}
	add := func(name, content string) {
		names = append(names, name)
		parts[name] = []byte(content)
	}
	// auxiliary parts: all valid, all missing, or one of them replaced by a broken variant
	aux := []string{"[Content_Types].xml", "_rels/.rels", "word/styles.xml", "word/_rels/document.xml.rels"}
	valid := []string{zzhContentTypesXML, zzhTopRelsXML, zzhStylesXML, `<Relationships xmlns="` + zzhNSRel + `"/>`}
	mode := zzvChoice(2 + len(aux))
	for k := range aux {
		switch {
		case mode == 0:
			add(aux[k], valid[k])
		case mode == 1:
		case mode-2 == k:
			add(aux[k], zzhAuxVariants[zzvChoice(len(zzhAuxVariants))])
		default:
			add(aux[k], valid[k])
		}
	}
	if zzvChoice(8) != 0 {
		add("word/document.xml", zzhDocVariants[zzvChoice(len(zzhDocVariants))])
	}
	// entries with unusual names (bare directory names, near misses of the media prefix)
	if odd := zzvChoice(6); odd > 0 {
		add([]string{"", "word/media", "word/media/", "word/medi", "word/media/image", "word/"}[odd], "x")
	}
	d, err := zzhOpen(names, parts)
	if err != nil {
		zzvAssert(d == nil, "a failed open returns no document")
		zzvReach("rejected")
		return
	}
	zzvAssert(d != nil && d.Body != nil, "a successful open returns a document with a body")
	if d == nil || d.Body == nil {
		return
	}
	d.Body.GetParagraphs()
	for _, t := range d.Body.GetTables() {
		t.GetRowCount()
		t.GetColumnCount()
		t.GetCellText(0, 0)
		zzhEditOpenedTable(t)
	}
	d.GetPageSettings()
	d.AddParagraph("more")
	// further editing of every kind that registers parts, relationships or content types
	switch zzvChoice(5) {
	case 0:
		d.AddHeader(HeaderFooterTypeDefault, "h")
	case 1:
		d.AddImageFromData(zzhPNG, "p.png", ImageFormatPNG, 3, 2, nil)
	case 2:
		d.AddListItem("l", nil)
	case 3:
		d.AddFootnote("t", "n")
	case 4:
		d.SetPageMargins(10, 10, 10, 10)
	}
	_, err = d.ToBytes()
	zzvAssert(err == nil, "an opened document saves")
	zzvReach("opened")
}
