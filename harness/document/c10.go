package document

import (
	"bytes"
	"io"
)

// C10: every picture shows exactly the image bytes it was given, at the requested size.

// zzhPic is one picture the harness asked for.
type zzhPic struct {
	alt     string // caller-supplied alternative text: identifies the picture in the document
	data    []byte
	relID   string // what the API returned (used by callers that place the picture themselves)
	placed  bool   // a drawing was placed in the document by the call
}

var zzhPicNames = []string{"a.png", "a.png", "photo.jpg", "noext", "x.JPEG", "d.i.r/p.gif", "图.png", ".png", "image0.png"}
var zzhFormats = []ImageFormat{ImageFormatPNG, ImageFormatJPEG, ImageFormatGIF}
var zzhAlts = []string{"alt-zero", "alt-one", "alt-two", "alt-three"}

// zzhAddPic adds one picture through a solver-chosen entry point; the data is an arbitrary
// byte string for the body entry points, a decodable PNG with a distinguishing tail for cells.
func zzhAddPic(d *Document, i int, tbl **Table, earlier []zzhPic) zzhPic {
	p := zzhPic{alt: zzhAlts[i]}
	cfg := &ImageConfig{AltText: p.alt}
	switch zzvChoice(4) {
	case 0:
		p.data = []byte(zzvString())
		info, err := d.AddImageFromData(p.data, zzhPicNames[zzvChoice(len(zzhPicNames))], zzhFormats[zzvChoice(3)], 10, 10, cfg)
		zzvAssert(err == nil && info != nil, "adding a picture succeeds")
		p.relID, p.placed = info.RelationID, true
	case 1:
		p.data = []byte(zzvString())
		info, err := d.AddImageFromDataWithoutElement(p.data, zzhPicNames[zzvChoice(len(zzhPicNames))], zzhFormats[zzvChoice(3)], 10, 10, cfg)
		zzvAssert(err == nil && info != nil, "adding a picture succeeds")
		p.relID = info.RelationID
	case 2:
		if *tbl == nil {
			t, err := d.AddTable(&TableConfig{Rows: 1, Cols: 2, Width: 3000})
			zzvAssume(err == nil)
			*tbl = t
		}
		p.data = append(append([]byte{}, zzhPNG...), byte('A'+i))
		info, err := d.AddCellImage(*tbl, 0, zzvChoice(2), &CellImageConfig{Data: p.data, Format: ImageFormatPNG, AltText: p.alt, Width: 20, KeepAspectRatio: true})
		zzvAssert(err == nil && info != nil, "adding a picture succeeds")
		p.relID, p.placed = info.RelationID, true
	case 3:
		// floating picture
		p.data = []byte(zzvString())
		cfg.Position = ImagePositionFloatLeft
		cfg.WrapText = ImageWrapSquare
		info, err := d.AddImageFromData(p.data, zzhPicNames[zzvChoice(len(zzhPicNames))], zzhFormats[zzvChoice(3)], 10, 10, cfg)
		zzvAssert(err == nil && info != nil, "adding a picture succeeds")
		p.relID, p.placed = info.RelationID, true
	}
	// the caller's images are pairwise different, so "another image's bytes" is observable
	for _, e := range earlier {
		zzvAssume(!bytes.Equal(e.data, p.data))
	}
	return p
}

// zzhCheckPics: in the saved package every picture resolves, through the relationship its
// drawing embeds, to a media part holding exactly its bytes.
func zzhCheckPics(pkg map[string][]byte, pics []zzhPic, what string) {
	rels, ok := zzhRels(pkg["word/_rels/document.xml.rels"])
	zzvAssert(ok, what+": the document relationship part decodes")
	es, ok := zzhParse(pkg["word/document.xml"])
	zzvAssert(ok, what+": the main part decodes")
	resolve := func(id string, p zzhPic) {
		n, target := 0, ""
		for _, r := range rels {
			if r.id == id {
				n++
				if r.typ == zzhRelImage {
					target = r.target
				}
			}
		}
		zzvAssert(n == 1 && target != "", what+": the picture's relationship id names exactly one image relationship")
		part, present := pkg[zzhResolve("word/", target)]
		zzvAssert(present, what+": the picture's relationship targets a media part that is present")
		if present {
			zzvAssert(bytes.Equal(part, p.data), what+": the media part a picture resolves to holds exactly that picture's bytes")
		}
	}
	for _, p := range pics {
		if !p.placed {
			resolve(p.relID, p)
			continue
		}
		// the drawing carrying this picture's alternative text: docPr descr=alt ... blip embed=id
		found := 0
		for i, e := range es {
			if e.Name == "docPr" && e.Attr("descr") == p.alt {
				for j := i + 1; j < len(es); j++ {
					if es[j].Name == "docPr" {
						break
					}
					if es[j].Name == "blip" {
						found++
						resolve(es[j].Attr("embed"), p)
						break
					}
				}
			}
		}
		zzvAssert(found == 1, what+": the document holds exactly one drawing for each placed picture")
	}
}

// Histories of picture additions (all entry points, equal / extension-less / misleading /
// non-ASCII names, all formats) interleaved with another relationship-creating call; judged on
// the saved package and again after the package was reopened and saved.
func ZZH_C10_Resolve() {
	d := New()
	var tbl *Table
	var pics []zzhPic
	k := zzvBound("pictures", 2, 2)
	for i := 0; i < k; i++ {
		if i == 1 && zzvBool() {
			zzvAssume(d.AddHeader(HeaderFooterTypeDefault, "h") == nil)
		}
		pics = append(pics, zzhAddPic(d, i, &tbl, pics))
	}
	data, err := d.ToBytes()
	zzvAssert(err == nil, "ToBytes succeeds")
	pkg, ok := zzhReadZipBytes(data)
	zzvAssert(ok, "the package is a readable archive")
	zzhCheckPics(pkg, pics, "saved")
	zzvReach("saved")
}

// The same after a save/open cycle, and with one more picture added to the reopened document.
func ZZH_C10_Reopen() {
	d := New()
	var tbl *Table
	var pics []zzhPic
	k := zzvBound("pictures_before_reopen", 1, 2)
	for i := 0; i < k; i++ {
		pics = append(pics, zzhAddPic(d, i, &tbl, pics))
	}
	data, err := d.ToBytes()
	zzvAssert(err == nil, "ToBytes succeeds")
	d2, err := OpenFromMemory(io.NopCloser(bytes.NewReader(data)))
	zzvAssert(err == nil && d2 != nil, "the saved package opens")
	if d2 == nil {
		return
	}
	// pictures added without an element are not in the body; the rest must still resolve
	var tbl2 *Table
	if zzvBool() {
		pics = append(pics, zzhAddPic(d2, k, &tbl2, pics))
	}
	data2, err := d2.ToBytes()
	zzvAssert(err == nil, "ToBytes of the reopened document succeeds")
	pkg, ok := zzhReadZipBytes(data2)
	zzvAssert(ok, "the re-saved package is a readable archive")
	zzhCheckPics(pkg, pics, "reopened")
	zzvReach("reopened")
}

var zzhMediaNames = []string{"image0.png", "image1.png", "image5.jpeg", "pic.png", "image2.gif", "image007.png", "image3", "IMAGE4.png"}

// Opened packages with existing media of any naming pattern: a new picture never takes over an
// existing media part, and existing pictures keep resolving to their own bytes.
func ZZH_C10_OpenedMedia() {
	n := 1 + zzvChoice(zzvBound("existing_media", 2, 3))
	rels := `<?xml version="1.0" encoding="UTF-8"?>` + "\n" + `<Relationships xmlns="` + zzhNSRel + `">`
	rels += `<Relationship Id="rId1" Type="http://schemas.openxmlformats.org/officeDocument/2006/relationships/styles" Target="styles.xml"/>`
	names := []string{"[Content_Types].xml", "_rels/.rels", "word/document.xml", "word/styles.xml", "word/_rels/document.xml.rels"}
	parts := map[string][]byte{"[Content_Types].xml": []byte(zzhContentTypesXML), "_rels/.rels": []byte(zzhTopRelsXML), "word/styles.xml": []byte(zzhStylesXML)}
	body := ""
	media := make([]string, n)
	old := make([][]byte, n)
	for i := 0; i < n; i++ {
		media[i] = zzhMediaNames[zzvChoice(len(zzhMediaNames))]
		for j := 0; j < i; j++ {
			zzvAssume(media[i] != media[j])
		}
		id := "rId" + zzvItoa(i+2)
		rels += `<Relationship Id="` + id + `" Type="` + zzhRelImage + `" Target="media/` + media[i] + `"/>`
		names = append(names, "word/media/"+media[i])
		old[i] = append(append([]byte{}, zzhPNG...), byte('a'+i))
		parts["word/media/"+media[i]] = old[i]
		body += `<w:p><w:r><w:drawing><wp:inline xmlns:wp="http://schemas.openxmlformats.org/drawingml/2006/wordprocessingDrawing"><wp:extent cx="1" cy="1"/><wp:docPr id="` + zzvItoa(i+1) + `" name="n" descr="old` + zzvItoa(i) + `"/><a:graphic xmlns:a="http://schemas.openxmlformats.org/drawingml/2006/main"><a:graphicData uri="http://schemas.openxmlformats.org/drawingml/2006/picture"><pic:pic xmlns:pic="http://schemas.openxmlformats.org/drawingml/2006/picture"><pic:blipFill><a:blip r:embed="` + id + `"/></pic:blipFill></pic:pic></a:graphicData></a:graphic></wp:inline></w:drawing></w:r></w:p>`
	}
	rels += `</Relationships>`
	parts["word/_rels/document.xml.rels"] = []byte(rels)
	parts["word/document.xml"] = []byte(zzhDocXML(body))
	d, err := zzhOpen(names, parts)
	zzvAssert(err == nil && d != nil, "a valid package opens")
	if d == nil {
		return
	}
	var pics []zzhPic
	for i := 0; i < n; i++ {
		pics = append(pics, zzhPic{alt: "old" + zzvItoa(i), data: old[i], placed: true})
	}
	var tbl *Table
	k := zzvBound("new_pictures", 1, 2)
	for i := 0; i < k; i++ {
		pics = append(pics, zzhAddPic(d, i, &tbl, pics))
	}
	data, err := d.ToBytes()
	zzvAssert(err == nil, "ToBytes succeeds")
	pkg, ok := zzhReadZipBytes(data)
	zzvAssert(ok, "the package is a readable archive")
	for i := 0; i < n; i++ {
		part, present := pkg["word/media/"+media[i]]
		zzvAssert(present && bytes.Equal(part, old[i]), "existing media parts are written back unchanged under their names")
	}
	zzhCheckPics(pkg, pics, "opened")
	zzvReach("opened")
}

// Sizing rules of calculateDisplaySize, over all pixel sizes and millimetre requests. The
// request space is partitioned by mode so that each class is decided on its own path.
func ZZH_C10_Size() {
	zzvFloatMag(48)
	zzvFloatRel()
	zzvMerge(false)
	d := New()
	maxPx := zzvBound("max_pixels", 16384, 16384)
	w, h := zzvIntIn(1, maxPx), zzvIntIn(1, maxPx)
	info := &ImageInfo{ID: "7", RelationID: "rId9", Width: w, Height: h}
	var W, H float64
	keep := false
	mode := zzvChoice(6)
	switch mode {
	case 0: // both dimensions given
		W, H, keep = zzvFloatIn(0, 10000), zzvFloatIn(0, 10000), zzvBool()
		zzvAssume(W > 0 && H > 0)
	case 1: // width only, keep the aspect ratio
		W, H, keep = zzvFloatIn(0, 10000), zzvFloatIn(-10, 0), true
		zzvAssume(W > 0)
	case 2: // height only, keep the aspect ratio
		W, H, keep = zzvFloatIn(-10, 0), zzvFloatIn(0, 10000), true
		zzvAssume(H > 0)
	case 3: // one dimension at most and no aspect ratio, or none
		W, H = zzvFloatIn(-10, 10000), zzvFloatIn(-10, 10000)
		zzvAssume(zzvOr(W <= 0, H <= 0))
	case 4, 5: // no size request at all
	}
	switch mode {
	case 4:
		info.Config = &ImageConfig{}
	case 5:
	default:
		info.Config = &ImageConfig{Size: &ImageSize{Width: W, Height: H, KeepAspectRatio: keep}}
	}
	cx, cy := d.calculateDisplaySize(info)
	fcx, fcy := float64(cx), float64(cy)
	switch mode {
	case 0:
		zzvAssert(zzvAbsLE(fcx, W*36000, 1.001), "explicit size: the width is the requested millimetres in EMU (within one EMU)")
		zzvAssert(zzvAbsLE(fcy, H*36000, 1.001), "explicit size: the height is the requested millimetres in EMU (within one EMU)")
		zzvReach("explicit")
	case 1:
		zzvAssert(zzvAbsLE(fcx, W*36000, 1.001), "width with aspect ratio: the width is the requested millimetres in EMU (within one EMU)")
		zzvAssert(zzvCrossLE(cy, int64(w), cx, int64(h), 2*int64(w+h)), "width with aspect ratio: height/width follows the pixel aspect ratio")
		zzvReach("width-ratio")
	case 2:
		zzvAssert(zzvAbsLE(fcy, H*36000, 1.001), "height with aspect ratio: the height is the requested millimetres in EMU (within one EMU)")
		zzvAssert(zzvCrossLE(cx, int64(h), cy, int64(w), 2*int64(w+h)), "height with aspect ratio: width/height follows the pixel aspect ratio")
		zzvReach("height-ratio")
	default:
		zzvAssert(zzvAnd(cx == int64(w)*9525, cy == int64(h)*9525), "no usable size request: the pixel size at 96 dpi")
		zzvReach("pixels")
	}
	// the extents written into the drawing are the computed ones
	p := d.createImageParagraph(info)
	dr := p.Runs[0].Drawing
	zzvAssert(dr != nil && dr.Inline != nil && dr.Inline.Extent != nil, "an inline drawing with an extent is produced")
	zzvAssert(zzvAnd(dr.Inline.Extent.Cx == zzvItoa(int(cx)), dr.Inline.Extent.Cy == zzvItoa(int(cy))), "wp:extent carries the computed size")
	ext := dr.Inline.Graphic.GraphicData.Pic.SpPr.Xfrm.Ext
	zzvAssert(zzvAnd(ext.Cx == zzvItoa(int(cx)), ext.Cy == zzvItoa(int(cy))), "a:ext carries the computed size")
	zzvAssert(dr.Inline.Graphic.GraphicData.Pic.BlipFill.Blip.Embed == "rId9", "the drawing embeds the picture's relationship id")
}

// Pictures placed in table cells follow the same sizing rules: explicit width and height, one
// dimension with the pixel aspect ratio, or the pixel size (the picture is a 3x2 pixel PNG).
func ZZH_C10_CellImageSize() {
	zzvFloatMag(44)
	zzvFloatRel()
	zzvMerge(false)
	d := New()
	t, err := d.AddTable(&TableConfig{Rows: 1, Cols: 1, Width: 3000})
	zzvAssume(err == nil)
	var W, H float64
	mode := zzvChoice(4)
	switch mode {
	case 0:
		W, H = zzvFloatIn(0, 1000), zzvFloatIn(0, 1000)
		zzvAssume(W > 0 && H > 0)
	case 1:
		W = zzvFloatIn(0, 1000)
		zzvAssume(W > 0)
	case 2:
		H = zzvFloatIn(0, 1000)
		zzvAssume(H > 0)
	}
	info, err := d.AddCellImage(t, 0, 0, &CellImageConfig{Data: zzhPNG, Format: ImageFormatPNG, Width: W, Height: H, KeepAspectRatio: true})
	zzvAssert(err == nil && info != nil, "adding a cell picture succeeds")
	cell, _ := t.GetCell(0, 0)
	var ext *DrawingExtent
	for i := range cell.Paragraphs {
		for j := range cell.Paragraphs[i].Runs {
			if dr := cell.Paragraphs[i].Runs[j].Drawing; dr != nil && dr.Inline != nil {
				ext = dr.Inline.Extent
			}
		}
	}
	zzvAssert(ext != nil, "the cell holds the picture's drawing")
	if ext == nil {
		return
	}
	cx, cy := d.calculateDisplaySize(info)
	zzvAssert(zzvAnd(ext.Cx == zzvItoa(int(cx)), ext.Cy == zzvItoa(int(cy))), "the cell drawing carries the size computed for the picture")
	fcx, fcy := float64(cx), float64(cy)
	switch mode {
	case 0:
		zzvAssert(zzvAnd(zzvAbsLE(fcx, W*36000, 1.001), zzvAbsLE(fcy, H*36000, 1.001)), "cell picture, explicit size: the requested millimetres in EMU")
	case 1:
		zzvAssert(zzvAbsLE(fcx, W*36000, 1.001), "cell picture, width only: the width is the requested millimetres in EMU")
		zzvAssert(zzvCrossLE(cy, 3, cx, 2, 10), "cell picture, width only: the height follows the pixel aspect ratio")
	case 2:
		zzvAssert(zzvAbsLE(fcy, H*36000, 1.001), "cell picture, height only: the height is the requested millimetres in EMU")
		zzvAssert(zzvCrossLE(cx, 2, cy, 3, 10), "cell picture, height only: the width follows the pixel aspect ratio")
	default:
		zzvAssert(zzvAnd(cx == 3*9525, cy == 2*9525), "cell picture without a size request: the pixel size at 96 dpi")
	}
	zzvReach("cell-size")
}

// Pictures placed through a template image placeholder follow the same sizing rules: explicit
// width and height, or one dimension with the other derived from the pixel aspect ratio, or the
// pixel size; the drawing carries the size computed for the picture.
func ZZH_C10_TemplateImageSize() {
	zzvFloatMag(44)
	zzvFloatRel()
	zzvMerge(false)
	d := New()
	var W, H float64
	var cfg *ImageConfig
	mode := zzvChoice(4)
	switch mode {
	case 0:
		W, H = zzvFloatIn(0, 1000), zzvFloatIn(0, 1000)
		zzvAssume(W > 0 && H > 0)
	case 1:
		W = zzvFloatIn(0, 1000)
		zzvAssume(W > 0)
	case 2:
		H = zzvFloatIn(0, 1000)
		zzvAssume(H > 0)
	}
	if mode != 3 {
		cfg = &ImageConfig{Position: ImagePositionInline, Size: &ImageSize{Width: W, Height: H, KeepAspectRatio: true}}
	}
	te := NewTemplateEngine()
	p, err := te.createImageParagraph(&TemplateImageData{Data: zzhPNG, Config: cfg, AltText: "logo"}, d)
	zzvAssert(err == nil && p != nil, "placing a template picture succeeds")
	if p == nil {
		return
	}
	var ext *DrawingExtent
	for j := range p.Runs {
		if dr := p.Runs[j].Drawing; dr != nil && dr.Inline != nil {
			ext = dr.Inline.Extent
		}
	}
	zzvAssert(ext != nil, "the paragraph holds the picture's drawing")
	if ext == nil {
		return
	}
	// the pixel size of zzhPNG is 3 x 2: the size the sizing rules give for this request
	cx, cy := d.calculateDisplaySize(&ImageInfo{ID: "0", Width: 3, Height: 2, Config: cfg})
	zzvAssert(zzvAnd(ext.Cx == zzvItoa(int(cx)), ext.Cy == zzvItoa(int(cy))), "the template picture's drawing carries the size the sizing rules give for the request")
	fcx, fcy := float64(cx), float64(cy)
	switch mode {
	case 0:
		zzvAssert(zzvAnd(zzvAbsLE(fcx, W*36000, 1.001), zzvAbsLE(fcy, H*36000, 1.001)), "template picture, explicit size: the requested millimetres in EMU")
	case 1:
		zzvAssert(zzvAbsLE(fcx, W*36000, 1.001), "template picture, width only: the width is the requested millimetres in EMU")
		zzvAssert(zzvCrossLE(cy, 3, cx, 2, 10), "template picture, width only: the height follows the pixel aspect ratio")
	case 2:
		zzvAssert(zzvAbsLE(fcy, H*36000, 1.001), "template picture, height only: the height is the requested millimetres in EMU")
		zzvAssert(zzvCrossLE(cx, 2, cy, 3, 10), "template picture, height only: the width follows the pixel aspect ratio")
	case 3:
		zzvAssert(zzvAnd(cx == 3*9525, cy == 2*9525), "template picture, no size request: the pixel size at 96 dpi")
	}
	zzvReach("template picture sized")
}
