package document

import "github.com/zerx-lab/wordZero/pkg/style"

// C13: everything a document refers to by id is defined in the same package.

// zzhStyleIDsOf: the style ids defined by a saved styles part.
func zzhDefinedStyles(part []byte) (map[string]bool, bool) {
	es, ok := zzhParse(part)
	if !ok {
		return nil, false
	}
	out := map[string]bool{}
	for _, e := range es {
		if e.Name == "style" {
			out[e.Attr("styleId")] = true
		}
	}
	return out, true
}

// zzhCheckStyleRefs: every paragraph/character/table style id used in the main part is defined
// in the styles part of the same package.
func zzhCheckStyleRefs(pkg map[string][]byte, what string) {
	defs, ok := zzhDefinedStyles(pkg["word/styles.xml"])
	zzvAssert(ok, what+": the styles part decodes")
	es, ok := zzhParse(pkg["word/document.xml"])
	zzvAssert(ok, what+": the main part decodes")
	for _, e := range es {
		switch e.Name {
		case "pStyle":
			zzvAssert(defs[e.Attr("val")], what+": every paragraph style id used in the body is defined in the styles part")
		case "rStyle":
			zzvAssert(defs[e.Attr("val")], what+": every character style id used in the body is defined in the styles part")
		case "tblStyle":
			zzvAssert(defs[e.Attr("val")], what+": every table style id used in the body is defined in the styles part")
		}
	}
}

func zzhCheckNumberingRefs(pkg map[string][]byte, what string) {
	es, ok := zzhParse(pkg["word/document.xml"])
	zzvAssert(ok, what+": the main part decodes")
	var nums []zzhElem
	if part, has := pkg["word/numbering.xml"]; has {
		nums, ok = zzhParse(part)
		zzvAssert(ok, what+": the numbering part decodes")
	}
	for _, e := range es {
		if e.Name != "numId" {
			continue
		}
		_, _, _, found := zzhLevelOf(nums, e.Attr("val"), "0")
		zzvAssert(found, what+": every numbering id used by a list paragraph is defined together with its abstract definition")
	}
}

// zzhCheckNoteRefs: every footnote/endnote reference of the main part has its note in the
// footnotes/endnotes part.
func zzhCheckNoteRefs(pkg map[string][]byte, what string) {
	es, _ := zzhParse(pkg["word/document.xml"])
	for _, kind := range []string{"footnote", "endnote"} {
		var notes []zzhElem
		if part, has := pkg["word/"+kind+"s.xml"]; has {
			notes, _ = zzhParse(part)
		}
		for _, e := range es {
			if e.Name != kind+"Reference" {
				continue
			}
			found := false
			for _, n := range notes {
				if n.Name == kind && n.Attr("id") == e.Attr("id") {
					found = true
				}
			}
			zzvAssert(found, what+": every note id referenced in the body is defined in the notes part")
		}
	}
}

// zzhCheckNotesDefined: the notes the body marks ([1], [2], ... - the registries were reset, so
// ids count from 1) are defined in the notes part.
func zzhCheckNotesDefined(pkg map[string][]byte, what, kind string, n int) {
	if n == 0 {
		return
	}
	notes, ok := zzhParse(pkg["word/"+kind+"s.xml"])
	zzvAssert(ok, what+": the notes part decodes")
	for id := 1; id <= n; id++ {
		found := false
		for _, e := range notes {
			if e.Name == kind && e.Attr("id") == zzvItoa(id) {
				found = true
			}
		}
		zzvAssert(found, what+": every note the body refers to is defined in the notes part")
	}
}

func zzhSavedPackage(d *Document, what string) map[string][]byte {
	data, err := d.ToBytes()
	zzvAssert(err == nil, what+": ToBytes succeeds")
	pkg, ok := zzhReadZipBytes(data)
	zzvAssert(ok, what+": the package is a readable archive")
	return pkg
}

// Styled content from the helpers that emit style ids, mixed with style removal/creation, lists
// and an intermediate save.
func ZZH_C13_StyleAndNumberingRefs() {
	zzhPkgReset()
	d := New()
	k := zzvBound("styled_ops", 2, 2)
	saved := false
	used := map[int]bool{}
	redefined := ""
	nFoot, nEnd := 0, 0
	for i := 0; i < k; i++ {
		switch zzvChoice(10) {
		case 0:
			lv := zzvIntIn(-1, 10)
			d.AddHeadingParagraph("h", lv)
			used[zzvIteInt(zzvOr(lv < 1, lv > 9), 1, lv)] = true
		case 1:
			// removing a style that existing content uses is the caller's doing and outside
			rm := 1 + zzvChoice(3)
			zzvAssume(!used[rm])
			d.GetStyleManager().RemoveStyle("Heading" + zzvItoa(rm))
		case 2:
			id := "Custom" + zzvItoa(i)
			// a style of a solver-chosen type, or one whose type was left unset (as quick styles are)
			d.GetStyleManager().AddStyle(&style.Style{Type: [...]string{"paragraph", "", "numbering"}[zzvChoice(3)], StyleID: id, Name: &style.StyleName{Val: id}})
			p := d.AddParagraph("c")
			p.SetStyle(id)
			if saved {
				// the styles part written by the first save is kept verbatim: listed known finding
				zzvKnown("KF-C13-styles-part-not-regenerated", "second save: every paragraph style id used in the body is defined")
			}
		case 3:
			d.AddListItem("l", &ListConfig{Type: zzhListTypes[zzvChoice(3)], BulletSymbol: BulletTypeDot, StartNumber: zzvIntIn(1, 9), IndentLevel: 0})
		case 4:
			// nothing: only the optional save below
		case 5:
			t, err := d.AddTable(&TableConfig{Rows: 1, Cols: 1, Width: 1000})
			zzvAssume(err == nil && t != nil)
		case 6:
			lv := 1 + zzvChoice(3)
			d.AddHeadingParagraph("h", lv)
			used[lv] = true
		case 7:
			zzvAssume(d.AddFootnote("t", "note "+zzvItoa(i)) == nil)
			nFoot++
		case 8:
			zzvAssume(d.AddEndnote("t", "endnote "+zzvItoa(i)) == nil)
			nEnd++
		case 9:
			// an existing style is defined anew through the style API
			if !saved {
				redefined = "Redefined" + zzvItoa(i)
				d.GetStyleManager().AddStyle(&style.Style{Type: "paragraph", StyleID: "Quote", Name: &style.StyleName{Val: redefined}})
			}
		}
		// an intermediate save before the last call (so: content, save, more content of the same
		// kind, save again)
		if i < k-1 && !saved && (k == 2 || i == 1) && zzvBool() {
			zzhSavedPackage(d, "first save")
			saved = true
		}
	}
	label := "save"
	if saved {
		label = "second save"
	}
	pkg := zzhSavedPackage(d, label)
	zzhCheckStyleRefs(pkg, label)
	zzhCheckNumberingRefs(pkg, label)
	zzhCheckNoteRefs(pkg, label)
	zzhCheckNotesDefined(pkg, label, "footnote", nFoot)
	zzhCheckNotesDefined(pkg, label, "endnote", nEnd)
	if redefined != "" {
		es, _ := zzhParse(pkg["word/styles.xml"])
		found := false
		for i, e := range es {
			if e.Name == "style" && e.Attr("styleId") == "Quote" {
				for j := i + 1; j < len(es) && es[j].Depth > e.Depth; j++ {
					if es[j].Name == "name" && es[j].Attr("val") == redefined {
						found = true
					}
				}
			}
		}
		zzvAssert(found, label+": a style changed through the style API is written with its new definition")
	}
	zzvReach("checked")
}
