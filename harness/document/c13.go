package document

import "github.com/zerx-lab/wordZero/pkg/style"

// C13: everything a document refers to by id is defined in the same package.

// zzhStyleIDsOf: the style ids defined by a saved styles part.
func zzhDefinedStyles(part []byte) (map[string]bool, bool) {
	es, ok := zzhParse(part)
	if !ok {
		return nil, false
	}
	out := map[string]bool{}
	for _, e := range es {
		if e.Name == "style" {
			out[e.Attr("styleId")] = true
		}
	}
	return out, true
}

// zzhCheckStyleRefs: every paragraph/character/table style id used in the main part is defined
// in the styles part of the same package.
func zzhCheckStyleRefs(pkg map[string][]byte, what string) {
	defs, ok := zzhDefinedStyles(pkg["word/styles.xml"])
	zzvAssert(ok, what+": the styles part decodes")
	es, ok := zzhParse(pkg["word/document.xml"])
	zzvAssert(ok, what+": the main part decodes")
	for _, e := range es {
		switch e.Name {
		case "pStyle":
			zzvAssert(defs[e.Attr("val")], what+": every paragraph style id used in the body is defined in the styles part")
		case "rStyle":
			zzvAssert(defs[e.Attr("val")], what+": every character style id used in the body is defined in the styles part")
		case "tblStyle":
			zzvAssert(defs[e.Attr("val")], what+": every table style id used in the body is defined in the styles part")
		}
	}
}

func zzhCheckNumberingRefs(pkg map[string][]byte, what string) {
	es, ok := zzhParse(pkg["word/document.xml"])
	zzvAssert(ok, what+": the main part decodes")
	var nums []zzhElem
	if part, has := pkg["word/numbering.xml"]; has {
		nums, ok = zzhParse(part)
		zzvAssert(ok, what+": the numbering part decodes")
	}
	for _, e := range es {
		if e.Name != "numId" {
			continue
		}
		_, _, _, found := zzhLevelOf(nums, e.Attr("val"), "0")
		zzvAssert(found, what+": every numbering id used by a list paragraph is defined together with its abstract definition")
	}
}

func zzhSavedPackage(d *Document, what string) map[string][]byte {
	data, err := d.ToBytes()
	zzvAssert(err == nil, what+": ToBytes succeeds")
	pkg, ok := zzhReadZipBytes(data)
	zzvAssert(ok, what+": the package is a readable archive")
	return pkg
}

// Styled content from the helpers that emit style ids, mixed with style removal/creation, lists
// and an intermediate save.
func ZZH_C13_StyleAndNumberingRefs() {
	zzhPkgReset()
	d := New()
	k := zzvBound("styled_ops", 2, 3)
	saved := false
	used := map[int]bool{}
	for i := 0; i < k; i++ {
		switch zzvChoice(7) {
		case 0:
			lv := zzvIntIn(-1, 10)
			d.AddHeadingParagraph("h", lv)
			used[zzvIteInt(zzvOr(lv < 1, lv > 9), 1, lv)] = true
		case 1:
			// removing a style that existing content uses is the caller's doing and outside
			rm := 1 + zzvChoice(3)
			zzvAssume(!used[rm])
			d.GetStyleManager().RemoveStyle("Heading" + zzvItoa(rm))
		case 2:
			id := "Custom" + zzvItoa(i)
			d.GetStyleManager().AddStyle(&style.Style{Type: "paragraph", StyleID: id, Name: &style.StyleName{Val: id}})
			p := d.AddParagraph("c")
			p.SetStyle(id)
			if saved {
				// the styles part written by the first save is kept verbatim: listed known finding
				zzvKnown("KF-C13-styles-part-not-regenerated", "second save: every paragraph style id used in the body is defined")
			}
		case 3:
			d.AddListItem("l", &ListConfig{Type: zzhListTypes[zzvChoice(3)], BulletSymbol: BulletTypeDot, StartNumber: zzvIntIn(1, 9), IndentLevel: 0})
		case 4:
			if !saved {
				zzhSavedPackage(d, "first save")
				saved = true
			}
		case 5:
			t, err := d.AddTable(&TableConfig{Rows: 1, Cols: 1, Width: 1000})
			zzvAssume(err == nil && t != nil)
		case 6:
			lv := 1 + zzvChoice(3)
			d.AddHeadingParagraph("h", lv)
			used[lv] = true
		}
	}
	label := "save"
	if saved {
		label = "second save"
	}
	pkg := zzhSavedPackage(d, label)
	zzhCheckStyleRefs(pkg, label)
	zzhCheckNumberingRefs(pkg, label)
	zzvReach("checked")
}
