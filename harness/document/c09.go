package document

import "strconv"

// C09: tables stay well-formed grids under structural edits.
//
// One inductive step: a symbolic valid table (shape chosen by the solver, cell texts
// symbolic strings, optional horizontal/vertical merges already present), one
// operation with unconstrained Int positions, then: no panic; on error nothing
// changed; on success the grid invariant holds and every untargeted cell holds what
// a rows-by-columns reference model predicts.

// ---------- reference model ----------

// zzhModel: texts by (row, grid column); span[r][c] > 0 at the first grid column of a cell,
// 0 for grid columns covered by a span to the left.
type zzhModel struct {
	rows, cols int
	text       [][]string
	span       [][]int
	vm         [][]string // "", "restart", "continue" at the first grid column of a cell
}

func zzhSpanOf(c *TableCell) int {
	if c.Properties == nil || c.Properties.GridSpan == nil || c.Properties.GridSpan.Val == "" {
		return 1
	}
	n, err := strconv.Atoi(c.Properties.GridSpan.Val)
	if err != nil {
		return -1000
	}
	return n
}

func zzhVMergeOf(c *TableCell) string {
	if c.Properties == nil || c.Properties.VMerge == nil {
		return ""
	}
	if c.Properties.VMerge.Val == "restart" {
		return "restart"
	}
	return "continue"
}

func zzhCellText(c *TableCell) string {
	s := ""
	for i := range c.Paragraphs {
		for j := range c.Paragraphs[i].Runs {
			s += c.Paragraphs[i].Runs[j].Text.Content
		}
		if i < len(c.Paragraphs)-1 {
			s += "\n"
		}
	}
	return s
}

// zzhGridOK: the representation invariant I of the statement.
func zzhGridOK(t *Table) bool {
	if t.Grid == nil {
		return false
	}
	nc := len(t.Grid.Cols)
	// vertical-merge bookkeeping per grid column: is there an open merge above?
	open := make([]bool, nc+1)
	for r := range t.Rows {
		col := 0
		now := make([]bool, nc+1)
		for c := range t.Rows[r].Cells {
			cell := &t.Rows[r].Cells[c]
			sp := zzhSpanOf(cell)
			if sp < 1 || col+sp > nc {
				return false
			}
			if len(cell.Paragraphs) < 1 {
				return false
			}
			switch zzhVMergeOf(cell) {
			case "restart":
				now[col] = true
			case "continue":
				if !open[col] {
					return false
				}
				now[col] = true
			}
			col += sp
		}
		if col != nc {
			return false
		}
		open = now
	}
	return true
}

// zzhCellsOwnState: no two cells of the table share the state that edits write in place, so
// that a later edit of one cell cannot show up in another (needed for the step to be inductive).
func zzhCellsOwnState(t *Table) bool {
	var cells []*TableCell
	for r := range t.Rows {
		for c := range t.Rows[r].Cells {
			cells = append(cells, &t.Rows[r].Cells[c])
		}
	}
	for i := range cells {
		for j := i + 1; j < len(cells); j++ {
			// the property record (span and merge markers are written into it in place) and the
			// paragraphs must be the cell's own; value objects that the API only ever replaces
			// (width, alignment) may be shared
			if cells[i].Properties != nil && cells[i].Properties == cells[j].Properties {
				return false
			}
			if !zzvDisjoint(cells[i].Paragraphs, cells[j].Paragraphs) {
				return false
			}
		}
	}
	return true
}

// zzhBuild creates a rows x cols table through the real CreateTable with symbolic texts.
func zzhBuild(rows, cols int) (*Table, [][]string) {
	d := New()
	data := make([][]string, rows)
	for i := range data {
		data[i] = make([]string, cols)
		for j := range data[i] {
			data[i][j] = zzvString()
		}
	}
	t, err := d.CreateTable(&TableConfig{Rows: rows, Cols: cols, Width: 9000, Data: data})
	zzvAssume(err == nil)
	return t, data
}

func zzhShape() (int, int) {
	return zzvChoice(zzvBound("rows", 3, 4)) + 1, zzvChoice(zzvBound("cols", 3, 4)) + 1
}

// zzhTextsAre: plain (unmerged) table holds exactly want[r][c].
func zzhTextsAre(t *Table, want [][]string) bool {
	if len(t.Rows) != len(want) {
		return false
	}
	ok := true
	for r := range want {
		if len(t.Rows[r].Cells) != len(want[r]) {
			return false
		}
		for c := range want[r] {
			ok = zzvAnd(ok, zzhCellText(&t.Rows[r].Cells[c]) == want[r][c])
		}
	}
	return ok
}

func zzhData(n int) []string {
	k := zzvChoice(n + 2) // 0..n+1 entries: fewer, exactly, and one more than fits
	out := make([]string, k)
	for i := range out {
		out[i] = zzvString()
	}
	return out
}

func zzhPad(data []string, n int) []string {
	out := make([]string, n)
	copy(out, data)
	return out
}

// ---------- R0: plain rectangular tables ----------

func ZZH_C09_RowOps() {
	rows, cols := zzhShape()
	t, m := zzhBuild(rows, cols)
	before := zzvDeepCopy(t).(*Table)
	op := zzvChoice(4)
	var err error
	var want [][]string
	valid := false
	switch op {
	case 0: // InsertRow
		pos := zzvInt()
		data := zzhData(cols)
		err = t.InsertRow(pos, data)
		if zzvAnd(zzvAnd(pos >= 0, pos <= rows), len(data) <= cols) {
			valid = true
			for r := 0; r < rows+1; r++ {
				switch {
				case r < pos:
					want = append(want, m[r])
				case r == pos:
					want = append(want, zzhPad(data, cols))
				default:
					want = append(want, m[r-1])
				}
			}
		}
	case 1: // AppendRow
		data := zzhData(cols)
		err = t.AppendRow(data)
		if len(data) <= cols {
			valid = true
			want = append(append(want, m...), zzhPad(data, cols))
		}
	case 2: // DeleteRow
		i := zzvInt()
		err = t.DeleteRow(i)
		if zzvAnd(zzvAnd(i >= 0, i < rows), rows > 1) {
			valid = true
			for r := 0; r < rows; r++ {
				if r != i {
					want = append(want, m[r])
				}
			}
		}
	case 3: // DeleteRows
		s, e := zzvInt(), zzvInt()
		err = t.DeleteRows(s, e)
		if zzvAnd(zzvAnd(s >= 0, e < rows), zzvAnd(s <= e, rows-(e-s+1) >= 1)) {
			valid = true
			for r := 0; r < rows; r++ {
				if r < s || r > e {
					want = append(want, m[r])
				}
			}
		}
	}
	if valid {
		zzvAssert(err == nil, "row edit: a request inside the bounds succeeds")
		zzvAssert(zzhGridOK(t), "row edit: the table is a well-formed grid afterwards")
		zzvAssert(zzhCellsOwnState(t), "row edit: no two cells share mutable state afterwards")
		zzvAssert(zzhTextsAre(t, want), "row edit: every cell holds what the rows-by-columns model predicts")
		zzvAssert(t.GetRowCount() == len(want) && t.GetColumnCount() == cols, "row edit: row/column counts follow the model")
		zzvReach("edited")
	} else {
		zzvAssert(err != nil, "row edit: a request outside the bounds is rejected")
		zzvAssert(zzvSameShape(t, before), "row edit: a rejected request leaves the table exactly as it was")
		zzvReach("rejected")
	}
}

func ZZH_C09_ColumnOps() {
	rows, cols := zzhShape()
	t, m := zzhBuild(rows, cols)
	before := zzvDeepCopy(t).(*Table)
	op := zzvChoice(4)
	var err error
	want := make([][]string, rows)
	valid := false
	switch op {
	case 0: // InsertColumn
		pos := zzvInt()
		data := zzhData(rows)
		err = t.InsertColumn(pos, data, zzvIntIn(0, 9000))
		if zzvAnd(zzvAnd(pos >= 0, pos <= cols), len(data) <= rows) {
			valid = true
			col := zzhPad(data, rows)
			for r := 0; r < rows; r++ {
				for c := 0; c < cols+1; c++ {
					switch {
					case c < pos:
						want[r] = append(want[r], m[r][c])
					case c == pos:
						want[r] = append(want[r], col[r])
					default:
						want[r] = append(want[r], m[r][c-1])
					}
				}
			}
		}
	case 1: // AppendColumn
		data := zzhData(rows)
		err = t.AppendColumn(data, zzvIntIn(0, 9000))
		if len(data) <= rows {
			valid = true
			col := zzhPad(data, rows)
			for r := 0; r < rows; r++ {
				want[r] = append(append(want[r], m[r]...), col[r])
			}
		}
	case 2: // DeleteColumn
		i := zzvInt()
		err = t.DeleteColumn(i)
		if zzvAnd(zzvAnd(i >= 0, i < cols), cols > 1) {
			valid = true
			for r := 0; r < rows; r++ {
				for c := 0; c < cols; c++ {
					if c != i {
						want[r] = append(want[r], m[r][c])
					}
				}
			}
		}
	case 3: // DeleteColumns
		s, e := zzvInt(), zzvInt()
		err = t.DeleteColumns(s, e)
		if zzvAnd(zzvAnd(s >= 0, e < cols), zzvAnd(s <= e, cols-(e-s+1) >= 1)) {
			valid = true
			for r := 0; r < rows; r++ {
				for c := 0; c < cols; c++ {
					if c < s || c > e {
						want[r] = append(want[r], m[r][c])
					}
				}
			}
		}
	}
	if valid {
		zzvAssert(err == nil, "column edit: a request inside the bounds succeeds")
		zzvAssert(zzhGridOK(t), "column edit: the table is a well-formed grid afterwards")
		zzvAssert(zzhCellsOwnState(t), "column edit: no two cells share mutable state afterwards")
		zzvAssert(zzhTextsAre(t, want), "column edit: every cell holds what the rows-by-columns model predicts")
		zzvAssert(t.GetRowCount() == rows && t.GetColumnCount() == len(want[0]), "column edit: row/column counts follow the model")
		zzvReach("edited")
	} else {
		zzvAssert(err != nil, "column edit: a request outside the bounds is rejected")
		zzvAssert(zzvSameShape(t, before), "column edit: a rejected request leaves the table exactly as it was")
		zzvReach("rejected")
	}
}

func ZZH_C09_CellWrites() {
	rows, cols := zzhShape()
	t, m := zzhBuild(rows, cols)
	before := zzvDeepCopy(t).(*Table)
	r, c := zzvInt(), zzvInt()
	text := zzvString()
	op := zzvChoice(5)
	var err error
	switch op {
	case 0:
		err = t.SetCellText(r, c, text)
	case 1:
		err = t.SetCellFormattedText(r, c, text, &TextFormat{Bold: zzvBool(), FontSize: zzvIntIn(0, 72)})
	case 2:
		_, err = t.AddCellParagraph(r, c, text)
	case 3:
		err = t.ClearCellContent(r, c)
	case 4:
		var got string
		got, err = t.GetCellText(r, c)
		if err == nil {
			zzvAssert(zzvSameShape(t, before), "GetCellText: reading changes nothing")
			ok := false
			for i := 0; i < rows; i++ {
				for j := 0; j < cols; j++ {
					ok = zzvOr(ok, zzvAnd(zzvAnd(r == i, c == j), got == m[i][j]))
				}
			}
			zzvAssert(ok, "GetCellText: returns the text of the addressed cell")
		}
	}
	if zzvAnd(zzvAnd(r >= 0, r < rows), zzvAnd(c >= 0, c < cols)) {
		zzvAssert(err == nil, "cell write: an address inside the table succeeds")
		zzvAssert(zzhGridOK(t), "cell write: the table is a well-formed grid afterwards")
		zzvAssert(zzhCellsOwnState(t), "cell write: no two cells share mutable state afterwards")
		// untargeted cells unchanged; the targeted cell holds the new content
		ok := true
		for i := 0; i < rows; i++ {
			for j := 0; j < cols; j++ {
				got := zzhCellText(&t.Rows[i].Cells[j])
				hit := zzvAnd(r == i, c == j)
				var wantHit string
				switch op {
				case 0, 1:
					wantHit = text
				case 2:
					wantHit = m[i][j] + "\n" + text
				case 3:
					wantHit = ""
				case 4:
					wantHit = m[i][j]
				}
				ok = zzvAnd(ok, zzvOr(zzvAnd(hit, got == wantHit), zzvAnd(zzvNot(hit), got == m[i][j])))
			}
		}
		zzvAssert(ok, "cell write: only the addressed cell changes, to the written content")
		zzvReach("written")
	} else {
		zzvAssert(err != nil, "cell write: an address outside the table is rejected")
		zzvAssert(zzvSameShape(t, before), "cell write: a rejected request leaves the table exactly as it was")
		zzvReach("rejected")
	}
}

func ZZH_C09_MergePlain() {
	rows, cols := zzhShape()
	t, m := zzhBuild(rows, cols)
	before := zzvDeepCopy(t).(*Table)
	op := zzvChoice(2)
	var err error
	valid := false
	a, b, c := zzvInt(), zzvInt(), zzvInt()
	switch op {
	case 0:
		err = t.MergeCellsHorizontal(a, b, c) // row a, columns b..c
		valid = zzvAnd(zzvAnd(a >= 0, a < rows), zzvAnd(zzvAnd(b >= 0, c < cols), b < c))
	case 1:
		err = t.MergeCellsVertical(a, b, c) // rows a..b, column c
		valid = zzvAnd(zzvAnd(a >= 0, b < rows), zzvAnd(a < b, zzvAnd(c >= 0, c < cols)))
	}
	if valid {
		zzvAssert(err == nil, "merge: a range inside the table succeeds")
		zzvAssert(zzhGridOK(t), "merge: the table is a well-formed grid afterwards")
		zzvAssert(zzhCellsOwnState(t), "merge: no two cells share mutable state afterwards")
		zzvAssert(len(t.Rows) == rows, "merge: the number of rows is unchanged")
		ok := true
		if op == 0 {
			for i := 0; i < rows; i++ {
				if i != a {
					for j := 0; j < cols; j++ {
						ok = zzvAnd(ok, zzhCellText(&t.Rows[i].Cells[j]) == m[i][j])
					}
					continue
				}
				// merged row: cells b+1..c are gone, the first keeps its text and spans c-b+1
				zzvAssert(len(t.Rows[i].Cells) == cols-(c-b), "merge: the merged-away cells are removed from the row")
				for j := 0; j < len(t.Rows[i].Cells); j++ {
					src := j
					if j > b {
						src = j + (c - b)
					}
					ok = zzvAnd(ok, zzhCellText(&t.Rows[i].Cells[j]) == m[i][src])
				}
				zzvAssert(zzhSpanOf(&t.Rows[i].Cells[b]) == c-b+1, "merge: the surviving cell spans the merged columns")
			}
		} else {
			for i := 0; i < rows; i++ {
				for j := 0; j < cols; j++ {
					got := zzhCellText(&t.Rows[i].Cells[j])
					if j == c && i > a && i <= b {
						zzvAssert(zzhVMergeOf(&t.Rows[i].Cells[j]) == "continue", "merge: continuation cells are marked")
						continue
					}
					ok = zzvAnd(ok, got == m[i][j])
				}
			}
			zzvAssert(zzhVMergeOf(&t.Rows[a].Cells[c]) == "restart", "merge: the top cell starts the vertical merge")
		}
		zzvAssert(ok, "merge: every cell outside the merged range holds what the model predicts")
		zzvReach("merged")
	} else {
		zzvAssert(err != nil, "merge: a range outside the table (or a single cell) is rejected")
		zzvAssert(zzvSameShape(t, before), "merge: a rejected request leaves the table exactly as it was")
		zzvReach("rejected")
	}
}

// Accessors agree with the model: counts, iterator, ForEach, GetCellRange.
func ZZH_C09_Iterate() {
	rows, cols := zzhShape()
	t, m := zzhBuild(rows, cols)
	before := zzvDeepCopy(t).(*Table)
	n := 0
	ok := true
	err := t.ForEach(func(r, c int, cell *TableCell, text string) error {
		if r < 0 || r >= rows || c < 0 || c >= cols || r*cols+c != n {
			ok = false
			return nil
		}
		ok = zzvAnd(ok, text == m[r][c])
		n++
		return nil
	})
	zzvAssert(err == nil, "iterate: ForEach succeeds on a plain table")
	zzvAssert(n == rows*cols, "iterate: every cell is visited exactly once, in row-major order")
	zzvAssert(ok, "iterate: each visit reports the cell's text")
	it := t.NewCellIterator()
	zzvAssert(it.Total() == rows*cols, "iterate: Total is rows x columns")
	sr, sc, er, ec := zzvInt(), zzvInt(), zzvInt(), zzvInt()
	cells, err := t.GetCellRange(sr, sc, er, ec)
	if zzvAnd(zzvAnd(zzvAnd(sr >= 0, sc >= 0), zzvAnd(er < rows, ec < cols)), zzvAnd(sr <= er, sc <= ec)) {
		zzvAssert(err == nil, "range: a range inside the table succeeds")
		zzvAssert(len(cells) == (er-sr+1)*(ec-sc+1), "range: the range has (rows x columns) cells")
		zzvReach("ranged")
	} else {
		zzvAssert(err != nil, "range: a range outside the table is rejected")
		zzvReach("range-rejected")
	}
	zzvAssert(zzvSameShape(t, before), "iterate: reading changes nothing")
}

// CopyTable: equal content, no shared mutable state.
func ZZH_C09_CopyTable() {
	rows, cols := zzhShape()
	t, m := zzhBuild(rows, cols)
	nested := false
	if rows > 0 && cols > 0 && zzvBool() {
		nested = true
		// a nested table in the first cell (itself holding a nested table on a further choice)
		inner, _ := zzhBuild(1, 2)
		if zzvBool() {
			inner2, _ := zzhBuild(1, 1)
			inner.Rows[0].Cells[1].Tables = []Table{*inner2}
		}
		t.Rows[0].Cells[0].Tables = []Table{*inner}
	}
	zzvFreeze(t, "source table during CopyTable")
	cp := t.CopyTable()
	zzvUnfreeze()
	zzvAssert(cp != nil && zzhGridOK(cp), "copy: the copy is a well-formed grid")
	zzvAssert(zzhTextsAre(cp, m), "copy: the copy holds the same texts")
	// one obligation per field path of the copy whose memory the original can reach; the listed
	// finding names the paths that are shared on the pinned tree, any other path is new
	zzvKnown("KF-C09-copytable-shares", "copy: Table.Properties is not shared|copy: Table.Grid is not shared|copy: TableRow.Properties is not shared|copy: TableCell.Properties is not shared|copy: Paragraph.Properties is not shared|copy: Run.Properties is not shared")
	zzvAssertDisjoint(interface{}(cp), interface{}(t), "copy")
	zzvKnownEnd("KF-C09-copytable-shares")
	// editing the copy's rows/cells/text never shows in the original
	if rows > 0 && cols > 0 {
		cp.SetCellText(0, 0, "changed")
		cp.AppendRow(nil)
		zzvAssert(zzhTextsAre(t, m), "copy: editing rows and texts of the copy leaves the original's content alone")
	}
	if nested {
		zzvReach("copied a table with nested tables")
	}
	zzvReach("copied")
}

// ---------- R1: tables that already contain merged cells ----------

// zzhMerged builds a plain table and applies one valid horizontal merge (row hr, columns hs..he)
// and, optionally, one valid vertical merge in the last grid column region not touched by it.
func zzhMerged() (*Table, int, int, int, int, int) {
	rows, cols := zzvChoice(zzvBound("rows", 3, 4))+1, zzvChoice(zzvBound("cols", 3, 4)-1)+2
	t, _ := zzhBuild(rows, cols)
	hr := zzvChoice(rows)
	hs := zzvChoice(cols - 1)
	he := hs + 1 + zzvChoice(cols-1-hs)
	zzvAssume(t.MergeCellsHorizontal(hr, hs, he) == nil)
	zzvAssume(zzhGridOK(t))
	return t, rows, cols, hr, hs, he
}

func zzhMergedOp(op int) {
	t, rows, cols, hr, hs, he := zzhMerged()
	_, _, _ = hs, he, cols
	before := zzvDeepCopy(t).(*Table)
	a, b, c := zzvInt(), zzvInt(), zzvInt()
	var err error
	// regions of the listed findings: the operation applied to a table that already holds a
	// horizontally merged row (on plain tables the R0 harnesses above must be clean)
	kf := [...]string{"KF-C09-merged-insertrow", "", "KF-C09-merged-insertcolumn", "KF-C09-merged-deletecolumn", "",
		"KF-C09-merged-mergeagain", "", "KF-C09-merged-mergevertical"}[op]
	if op == 0 && hr != 0 {
		kf = "" // the new row is templated on row 0: only a merged row 0 yields a ragged row
	}
	switch kf {
	case "KF-C09-merged-insertrow":
		zzvKnown("KF-C09-merged-insertrow", "merged table: a successful|panic:")
	case "KF-C09-merged-insertcolumn":
		zzvKnown("KF-C09-merged-insertcolumn", "merged table: a successful|panic:")
	case "KF-C09-merged-deletecolumn":
		zzvKnown("KF-C09-merged-deletecolumn", "merged table: a successful|panic:")
	case "KF-C09-merged-mergeagain":
		zzvKnown("KF-C09-merged-mergeagain", "merged table: a successful|panic:")
	case "KF-C09-merged-mergevertical":
		zzvKnown("KF-C09-merged-mergevertical", "merged table: a successful|panic:")
	}
	switch op {
	case 0:
		err = t.InsertRow(a, nil)
	case 1:
		err = t.DeleteRow(a)
	case 2:
		err = t.InsertColumn(a, nil, 1000)
	case 3:
		err = t.DeleteColumn(a)
	case 4:
		err = t.SetCellText(a, b, "x")
	case 5:
		err = t.MergeCellsHorizontal(a, b, c)
	case 6:
		err = t.UnmergeCells(a, b)
	case 7:
		err = t.MergeCellsVertical(a, b, c)
	}
	if err != nil {
		zzvAssert(zzvSameShape(t, before), "merged table: a rejected request leaves the table exactly as it was")
		zzvReach("rejected")
	} else {
		zzvAssert(zzhGridOK(t), "merged table: a successful edit leaves a well-formed grid")
		zzvAssert(zzhCellsOwnState(t), "merged table: no two cells share mutable state afterwards")
		zzvReach("edited")
	}
	_ = rows
	_ = hr
}

func ZZH_C09_Merged_InsertRow()     { zzhMergedOp(0) }
func ZZH_C09_Merged_DeleteRow()     { zzhMergedOp(1) }
func ZZH_C09_Merged_InsertColumn()  { zzhMergedOp(2) }
func ZZH_C09_Merged_DeleteColumn()  { zzhMergedOp(3) }
func ZZH_C09_Merged_SetCellText()   { zzhMergedOp(4) }
func ZZH_C09_Merged_MergeAgain()    { zzhMergedOp(5) }
func ZZH_C09_Merged_Unmerge()       { zzhMergedOp(6) }
func ZZH_C09_Merged_MergeVertical() { zzhMergedOp(7) }

// MergeCellsRange on a plain table: a rectangle inside the table is merged (every row of it
// horizontally, its first column vertically), anything else is rejected without a trace.
func ZZH_C09_MergeRange() {
	rows, cols := zzhShape()
	t, m := zzhBuild(rows, cols)
	before := zzvDeepCopy(t).(*Table)
	r0, r1, c0, c1 := zzvInt(), zzvInt(), zzvInt(), zzvInt()
	err := t.MergeCellsRange(r0, r1, c0, c1)
	if err != nil {
		zzvAssert(zzvSameShape(t, before), "merge range: a rejected request leaves the table exactly as it was")
		zzvReach("rejected")
		return
	}
	// (a degenerate request that changes nothing may be accepted: the statement only asks for
	// "error and unchanged" or "success and well-formed")
	inside := r0 >= 0 && r1 < rows && r0 <= r1 && c0 >= 0 && c1 < cols && c0 <= c1
	zzvAssert(zzhGridOK(t), "merge range: the table is a well-formed grid afterwards")
	zzvAssert(zzhCellsOwnState(t), "merge range: no two cells share mutable state afterwards")
	zzvAssert(len(t.Rows) == rows, "merge range: the number of rows is unchanged")
	// cells outside the rectangle keep their text (read in grid coordinates)
	ok := true
	for i := 0; i < rows; i++ {
		col := 0
		for j := range t.Rows[i].Cells {
			cell := &t.Rows[i].Cells[j]
			inside := i >= r0 && i <= r1 && col >= c0 && col <= c1
			if !inside {
				ok = zzvAnd(ok, zzhCellText(cell) == m[i][col])
			}
			col += zzhSpanOf(cell)
		}
	}
	zzvAssert(ok, "merge range: every cell outside the merged rectangle holds what the model predicts")
	if inside {
		zzvAssert(zzhCellText(&t.Rows[r0].Cells[c0]) == m[r0][c0], "merge range: the top-left cell keeps its text")
		zzvReach("merged")
	} else {
		zzvAssert(zzvSameShape(t, before), "merge range: an accepted request outside the table changes nothing")
	}
}
