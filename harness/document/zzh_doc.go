package document

import (
	"archive/zip"
	"bytes"
	"io"
)

// a valid 3x2 PNG
var zzhPNG = []byte("\x89PNG\r\n\x1a\n\x00\x00\x00\rIHDR\x00\x00\x00\x03\x00\x00\x00\x02\b\x06\x00\x00\x00\x9dtf\x1a\x00\x00\x00\x12IDATx\x9cbb@\x02(\x1c@\x00\x00\x00\xff\xff\x00h\x00\x05b\x8c8l\x00\x00\x00\x00IEND\xaeB`\x82")

// zzhSomeDoc builds a document through the public API: a solver-chosen mix of content
// kinds, every text a symbolic string.
func zzhSomeDoc() *Document {
	d := New()
	d.AddParagraph(zzvString())
	if zzvBool() {
		zzvAssume(d.AddHeader(HeaderFooterTypeDefault, zzvString()) == nil)
	}
	if zzvBool() {
		_, err := d.AddImageFromData(zzhPNG, "pic.png", ImageFormatPNG, 10, 10, nil)
		zzvAssume(err == nil)
	}
	if zzvBool() {
		_, err := d.AddTable(&TableConfig{Rows: 1, Cols: 2, Width: 5000, Data: [][]string{{zzvString(), zzvString()}}})
		zzvAssume(err == nil)
	}
	return d
}

// zzhReadZip lists the entries of an archive: name -> content.
func zzhReadZip(files []*zip.File) (map[string][]byte, bool) {
	out := map[string][]byte{}
	for _, f := range files {
		rc, err := f.Open()
		if err != nil {
			return nil, false
		}
		data, err := io.ReadAll(rc)
		rc.Close()
		if err != nil {
			return nil, false
		}
		if _, dup := out[f.Name]; dup {
			return nil, false
		}
		out[f.Name] = data
	}
	return out, true
}

func zzhReadZipBytes(data []byte) (map[string][]byte, bool) {
	r, err := zip.NewReader(bytes.NewReader(data), int64(len(data)))
	if err != nil {
		return nil, false
	}
	return zzhReadZip(r.File)
}

func zzhReadZipFile(path string) (map[string][]byte, bool) {
	r, err := zip.OpenReader(path)
	if err != nil {
		return nil, false
	}
	defer r.Close()
	return zzhReadZip(r.File)
}

func zzhSameParts(a, b map[string][]byte) bool {
	if len(a) != len(b) {
		return false
	}
	ok := true
	for name, da := range a {
		db, present := b[name]
		if !present {
			return false
		}
		ok = zzvAnd(ok, bytes.Equal(da, db))
	}
	return ok
}

const zzhNSMain = "http://schemas.openxmlformats.org/wordprocessingml/2006/main"
const zzhNSRel = "http://schemas.openxmlformats.org/package/2006/relationships"

const zzhContentTypesXML = `<?xml version="1.0" encoding="UTF-8"?>
<Types xmlns="http://schemas.openxmlformats.org/package/2006/content-types"><Default Extension="rels" ContentType="application/vnd.openxmlformats-package.relationships+xml"/><Default Extension="xml" ContentType="application/xml"/><Default Extension="png" ContentType="image/png"/><Override PartName="/word/document.xml" ContentType="application/vnd.openxmlformats-officedocument.wordprocessingml.document.main+xml"/><Override PartName="/word/styles.xml" ContentType="application/vnd.openxmlformats-officedocument.wordprocessingml.styles+xml"/></Types>`

const zzhTopRelsXML = `<?xml version="1.0" encoding="UTF-8"?>
<Relationships xmlns="http://schemas.openxmlformats.org/package/2006/relationships"><Relationship Id="rId1" Type="http://schemas.openxmlformats.org/officeDocument/2006/relationships/officeDocument" Target="word/document.xml"/></Relationships>`

const zzhStylesXML = `<?xml version="1.0" encoding="UTF-8"?>
<w:styles xmlns:w="http://schemas.openxmlformats.org/wordprocessingml/2006/main"><w:style w:type="paragraph" w:styleId="Normal"><w:name w:val="Normal"/></w:style></w:styles>`

func zzhDocXML(body string) string {
	return `<?xml version="1.0" encoding="UTF-8"?>
<w:document xmlns:w="` + zzhNSMain + `" xmlns:r="http://schemas.openxmlformats.org/officeDocument/2006/relationships"><w:body>` + body + `</w:body></w:document>`
}

// zzhZip builds an archive from parts (natively a real ZIP, under gosx the archive stub).
func zzhZip(names []string, parts map[string][]byte) []byte {
	var buf bytes.Buffer
	zw := zip.NewWriter(&buf)
	for _, n := range names {
		w, err := zw.Create(n)
		if err != nil {
			return nil
		}
		w.Write(parts[n])
	}
	if zw.Close() != nil {
		return nil
	}
	return buf.Bytes()
}

// zzhOpen opens a package given as parts through the real OpenFromMemory.
func zzhOpen(names []string, parts map[string][]byte) (*Document, error) {
	return OpenFromMemory(io.NopCloser(bytes.NewReader(zzhZip(names, parts))))
}
