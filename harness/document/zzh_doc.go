package document

import (
	"archive/zip"
	"bytes"
	"io"
)

var zzhPNG = []byte("\x89PNG\r\n\x1a\n\x00\x00\x00\rIHDR")

// zzhSomeDoc builds a document through the public API: a solver-chosen mix of content
// kinds, every text a symbolic string.
func zzhSomeDoc() *Document {
	d := New()
	d.AddParagraph(zzvString())
	if zzvBool() {
		zzvAssume(d.AddHeader(HeaderFooterTypeDefault, zzvString()) == nil)
	}
	if zzvBool() {
		_, err := d.AddImageFromData(zzhPNG, "pic.png", ImageFormatPNG, 10, 10, nil)
		zzvAssume(err == nil)
	}
	if zzvBool() {
		_, err := d.AddTable(&TableConfig{Rows: 1, Cols: 2, Width: 5000, Data: [][]string{{zzvString(), zzvString()}}})
		zzvAssume(err == nil)
	}
	return d
}

// zzhReadZip lists the entries of an archive: name -> content.
func zzhReadZip(files []*zip.File) (map[string][]byte, bool) {
	out := map[string][]byte{}
	for _, f := range files {
		rc, err := f.Open()
		if err != nil {
			return nil, false
		}
		data, err := io.ReadAll(rc)
		rc.Close()
		if err != nil {
			return nil, false
		}
		if _, dup := out[f.Name]; dup {
			return nil, false
		}
		out[f.Name] = data
	}
	return out, true
}

func zzhReadZipBytes(data []byte) (map[string][]byte, bool) {
	r, err := zip.NewReader(bytes.NewReader(data), int64(len(data)))
	if err != nil {
		return nil, false
	}
	return zzhReadZip(r.File)
}

func zzhReadZipFile(path string) (map[string][]byte, bool) {
	r, err := zip.OpenReader(path)
	if err != nil {
		return nil, false
	}
	defer r.Close()
	return zzhReadZip(r.File)
}

func zzhSameParts(a, b map[string][]byte) bool {
	if len(a) != len(b) {
		return false
	}
	ok := true
	for name, da := range a {
		db, present := b[name]
		if !present {
			return false
		}
		ok = zzvAnd(ok, bytes.Equal(da, db))
	}
	return ok
}
