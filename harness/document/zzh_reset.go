package document

// zzhPkgReset puts the process-wide registries back to their initial state, so that a harness
// (and each native replay case) starts like a fresh process.
func zzhPkgReset() {
	globalFootnoteManager = nil
	globalNumberingManager = nil
}
