package document

import "strings"

// C01: every saved document is a well-formed OOXML package.

func zzhExtOf(name string) string {
	i := strings.LastIndex(name, ".")
	if i < 0 || strings.Contains(name[i:], "/") {
		return ""
	}
	return name[i+1:]
}

// zzhCheckPackage: the OPC rules on a saved package (both the content-type table and the
// relationship parts are decoded from the saved bytes).
func zzhCheckPackage(pkg map[string][]byte, what string) {
	ct, has := pkg["[Content_Types].xml"]
	zzvAssert(has, what+": a content-types part exists")
	rel, hasRel := pkg["_rels/.rels"]
	zzvAssert(hasRel, what+": a package relationship part exists")
	if !has || !hasRel {
		return
	}
	es, ok := zzhParse(ct)
	zzvAssert(ok && len(es) > 0 && es[0].Name == "Types", what+": the content-types part decodes")
	var defaults, overrides []string
	for _, e := range es {
		if e.Name == "Default" {
			defaults = append(defaults, strings.ToLower(e.Attr("Extension")))
		}
		if e.Name == "Override" {
			overrides = append(overrides, e.Attr("PartName"))
		}
	}
	rels, ok := zzhRels(rel)
	zzvAssert(ok, what+": the package relationship part decodes")
	nMain := 0
	for _, r := range rels {
		if r.typ == zzhRelOfficeDoc {
			nMain++
			_, present := pkg[zzhResolve("", r.target)]
			zzvAssert(present, what+": the office-document relationship locates a part that is present")
		}
	}
	zzvAssert(nMain == 1, what+": exactly one main document part is located")
	for name, data := range pkg {
		if name == "[Content_Types].xml" {
			continue
		}
		covered := false
		ext := strings.ToLower(zzhExtOf(name))
		for _, d := range defaults {
			if ext != "" && d == ext {
				covered = true
			}
		}
		for _, o := range overrides {
			if o == "/"+name {
				covered = true
			}
		}
		zzvAssert(covered, what+": every part has a content type (default by extension or override)")
		if strings.HasSuffix(name, ".xml") || strings.HasSuffix(name, ".rels") {
			_, dec := zzhParse(data)
			zzvAssert(dec, what+": every XML part is well-formed")
		}
	}
}

var zzhC01Names = []string{"a.png", "photo.jpg", "noext", "x.JPEG", "p.gif", "图.png", "b.bmp", "trailingdot."}

// zzhC01Op: one solver-chosen part-creating call.
func zzhC01Op(d *Document) {
	switch zzvChoice(9) {
	case 0:
		d.AddParagraph(zzvString())
	case 1:
		// (a call that reports an error must leave the package as consistent as a successful one)
		d.AddImageFromData([]byte(zzvString()), zzhC01Names[zzvChoice(len(zzhC01Names))], zzhFormats[zzvChoice(3)], 10, 10, nil)
	case 2:
		zzvAssume(d.AddHeader(zzhKinds[zzvChoice(3)], zzvString()) == nil)
	case 3:
		zzvAssume(d.AddFooterWithPageNumber(zzhKinds[zzvChoice(3)], zzvString(), zzvBool()) == nil)
	case 4:
		d.AddListItem(zzvString(), nil)
	case 5:
		zzvAssume(d.AddFootnote(zzvString(), zzvString()) == nil)
	case 6:
		zzvAssume(d.AddEndnote(zzvString(), zzvString()) == nil)
	case 7:
		zzvAssume(d.SetFootnoteConfig(DefaultFootnoteConfig()) == nil)
	case 8:
		_, err := d.AddTable(&TableConfig{Rows: 1, Cols: 1, Width: 3000, Data: [][]string{{zzvString()}}})
		zzvAssume(err == nil)
	}
}

// API-built documents: any two [three] part-creating calls, both save entry points.
func ZZH_C01_BuiltPackage() {
	d := New()
	k := zzvBound("part_ops", 2, 3)
	for i := 0; i < k; i++ {
		zzhC01Op(d)
	}
	data, err := d.ToBytes()
	zzvAssert(err == nil, "ToBytes succeeds")
	pkg, ok := zzhReadZipBytes(data)
	zzvAssert(ok, "ToBytes yields a readable archive")
	zzhCheckPackage(pkg, "ToBytes")
	if zzvBool() {
		// a fresh path, or one that already holds a longer file
		path := zzvFaultPath([...]int{0, 4}[zzvChoice(2)])
		zzvAssert(d.Save(path) == nil, "Save succeeds")
		onDisk, ok := zzhReadZipFile(path)
		zzvAssert(ok, "Save yields a readable archive")
		zzhCheckPackage(onDisk, "Save")
	}
	if zzvBool() {
		// the bytes handed out stay that package when another (smaller) document is serialised
		_, err := New().ToBytes()
		zzvAssert(err == nil, "ToBytes succeeds")
		again, ok := zzhReadZipBytes(data)
		zzvAssert(ok && zzhSameParts(pkg, again), "bytes returned by ToBytes are still the same readable archive after another document was serialised")
	}
	zzvReach("checked")
}

// The one place where caller text is spliced into XML as a string: values substituted into
// header/footer parts. The escaped value must not be able to end the text node or start markup.
func ZZH_C01_EscapedValue() {
	te := NewTemplateEngine()
	v := zzvByteString(zzvBound("value_bytes", 3, 4))
	out := te.escapeXMLContent(v)
	// reference: character by character
	want := ""
	for i := 0; i < len(v); i++ {
		switch v[i] {
		case '&':
			want += "&amp;"
		case '<':
			want += "&lt;"
		case '>':
			want += "&gt;"
		case '"':
			want += "&quot;"
		case '\'':
			want += "&apos;"
		default:
			want += v[i : i+1]
		}
	}
	zzvAssert(out == want, "escape: every markup character of a substituted value is replaced by its entity, nothing else changes")
	zzvAssert(!zzvStrContains(out, "<") && !zzvStrContains(out, ">") && !zzvStrContains(out, "\"") && !zzvStrContains(out, "'"), "escape: no markup character survives")
	zzvReach("escaped")
}

// A header carrying a placeholder, rendered with an arbitrary value, stays well-formed.
func ZZH_C01_HeaderSubstitution() {
	te := NewTemplateEngine()
	part := []byte(`<?xml version="1.0" encoding="UTF-8"?><w:hdr xmlns:w="` + zzhNSMain + `"><w:p><w:r><w:t>Dept: {{dept}} / {{other}}</w:t></w:r></w:p></w:hdr>`)
	data := NewTemplateData()
	v := zzvByteString(zzvBound("header_value_bytes", 2, 3))
	// values that themselves contain template braces are C16's subject (values are re-scanned)
	zzvAssume(!zzvStrContains(v, "{") && !zzvStrContains(v, "}"))
	data.SetVariable("dept", v)
	out, err := te.replaceVariablesInXMLPart(part, data)
	zzvAssert(err == nil, "header substitution succeeds")
	s := string(out)
	pre := `<?xml version="1.0" encoding="UTF-8"?><w:hdr xmlns:w="` + zzhNSMain + `"><w:p><w:r><w:t>Dept: `
	post := ` / {{other}}</w:t></w:r></w:p></w:hdr>`
	zzvAssert(zzvStrHasPrefix(s, pre) && zzvStrHasSuffix(s, post), "header substitution: everything around the placeholder is unchanged, unknown placeholders stay")
	mid := s[len(pre) : len(s)-len(post)]
	zzvAssert(!zzvStrContains(mid, "<") && !zzvStrContains(mid, ">"), "header substitution: the value cannot introduce markup")
	zzvAssert(mid == te.escapeXMLContent(v), "header substitution: the value lands escaped")
	zzvReach("substituted")
}

// Documents rendered from a document template own their content-type table: registering a new
// image format in one rendering must not disturb another rendering or the template.
func ZZH_C01_RenderedDocumentsContentTypes() {
	src := New()
	_, err := src.AddImageFromData([]byte(zzvString()), "base.png", ImageFormatPNG, 1, 1, nil)
	zzvAssume(err == nil)
	if zzvBool() {
		// the base document was opened from a package that lists its relationships the way Word
		// does: document properties first, the main document last
		src.relationships = &Relationships{Xmlns: zzhNSRel, Relationships: []Relationship{
			{ID: "rId3", Type: "http://schemas.openxmlformats.org/officeDocument/2006/relationships/extended-properties", Target: "docProps/app.xml"},
			{ID: "rId1", Type: zzhRelOfficeDoc, Target: "word/document.xml"},
		}}
		src.parts["docProps/app.xml"] = []byte(`<Properties xmlns="http://schemas.openxmlformats.org/officeDocument/2006/extended-properties"/>`)
	}
	te := NewTemplateEngine()
	a, b := te.cloneDocument(src), te.cloneDocument(src)
	zzvAssertDisjoint(interface{}(a.contentTypes), interface{}(src), "rendered document content types")
	zzvAssertDisjoint(interface{}(a.contentTypes), interface{}(b), "rendered document content types")
	fa, fb := zzhFormats[zzvChoice(3)], zzhFormats[zzvChoice(3)]
	_, err = a.AddImageFromData([]byte(zzvString()), zzhC01Names[zzvChoice(len(zzhC01Names))], fa, 1, 1, nil)
	zzvAssume(err == nil)
	_, err = b.AddImageFromData([]byte(zzvString()), zzhC01Names[zzvChoice(len(zzhC01Names))], fb, 1, 1, nil)
	zzvAssume(err == nil)
	for _, d := range []*Document{a, b, src} {
		data, err := d.ToBytes()
		zzvAssert(err == nil, "ToBytes succeeds")
		pkg, ok := zzhReadZipBytes(data)
		zzvAssert(ok, "ToBytes yields a readable archive")
		zzhCheckPackage(pkg, "rendered")
	}
	zzvReach("checked")
}
