package document

// Helpers shared by the harnesses: decoding a part with encoding/xml's Decoder. Natively this
// is the real Decoder over the real bytes; under gosx it is the decoder stub over the
// tag-derived marshal model of the blob (DESIGN.md §4). The same harness code runs in both.

import (
	"bytes"
	"encoding/xml"
	"io"
)

// zzhFlatten renders a part as a list: "<local attr=value ..." per start element,
// "#text" per character data inside a w:t / w:instrText element, "/local" per end element.
// ok is false if the part does not decode.
func zzhFlatten(part []byte) (out []string, ok bool) {
	dec := xml.NewDecoder(bytes.NewReader(part))
	depth := 0
	inText := false
	for {
		tok, err := dec.Token()
		if err == io.EOF {
			return out, depth == 0
		}
		if err != nil {
			return out, false
		}
		switch t := tok.(type) {
		case xml.StartElement:
			depth++
			s := "<" + t.Name.Local
			for _, a := range t.Attr {
				if a.Name.Space == "xmlns" || a.Name.Local == "xmlns" || a.Name.Local == "Ignorable" {
					continue
				}
				s += " " + a.Name.Local + "=" + a.Value
			}
			out = append(out, s)
			inText = t.Name.Local == "t" || t.Name.Local == "instrText"
		case xml.EndElement:
			depth--
			inText = false
			out = append(out, "/"+t.Name.Local)
		case xml.CharData:
			if inText {
				out = append(out, "#"+string(t))
			}
		}
	}
}

func zzhHas(list []string, s string) bool {
	found := false
	for _, e := range list {
		found = zzvOr(found, e == s)
	}
	return found
}

func zzhCount(list []string, s string) int {
	n := 0
	for _, e := range list {
		if e == s {
			n++
		}
	}
	return n
}

// zzhElem is one start element of a decoded part.
type zzhElem struct {
	Name  string
	Keys  []string // attribute local names
	Vals  []string
	Depth int
	Text  string // character data directly inside (w:t / instrText only)
}

func (e zzhElem) Attr(k string) string {
	for i, n := range e.Keys {
		if n == k {
			return e.Vals[i]
		}
	}
	return ""
}

// zzhParse decodes a part into its start elements in document order.
func zzhParse(part []byte) (out []zzhElem, ok bool) {
	dec := xml.NewDecoder(bytes.NewReader(part))
	depth := 0
	var stack []int
	for {
		tok, err := dec.Token()
		if err == io.EOF {
			return out, depth == 0
		}
		if err != nil {
			return out, false
		}
		switch t := tok.(type) {
		case xml.StartElement:
			depth++
			e := zzhElem{Name: t.Name.Local, Depth: depth}
			for _, a := range t.Attr {
				if a.Name.Space == "xmlns" || a.Name.Local == "xmlns" {
					continue
				}
				e.Keys = append(e.Keys, a.Name.Local)
				e.Vals = append(e.Vals, a.Value)
			}
			out = append(out, e)
			stack = append(stack, len(out)-1)
		case xml.EndElement:
			depth--
			if len(stack) > 0 {
				stack = stack[:len(stack)-1]
			}
		case xml.CharData:
			if len(stack) > 0 {
				top := stack[len(stack)-1]
				if out[top].Name == "t" || out[top].Name == "instrText" {
					out[top].Text += string(t)
				}
			}
		}
	}
}
