package document

// C08: body editing behaves like an ordered list of elements.

func zzhBody(n int) (*Document, []interface{}) {
	d := New()
	for i := 0; i < n; i++ {
		switch zzvChoice(3) {
		case 0:
			d.Body.Elements = append(d.Body.Elements, &Paragraph{Runs: []Run{{Text: Text{Content: zzvString()}}}})
		case 1:
			d.Body.Elements = append(d.Body.Elements, &Table{})
		case 2:
			d.Body.Elements = append(d.Body.Elements, &SectionProperties{})
		}
	}
	ref := append([]interface{}(nil), d.Body.Elements...)
	return d, ref
}

func zzhSameElems(a, b []interface{}) bool {
	if len(a) != len(b) {
		return false
	}
	for i := range a {
		if a[i] != b[i] {
			return false
		}
	}
	return true
}

// zzhRefWithout reports whether got equals ref with element k removed.
func zzhRefWithout(got, ref []interface{}, k int) bool {
	if len(got) != len(ref)-1 {
		return false
	}
	for j := range got {
		want := ref[j]
		if j >= k {
			want = ref[j+1]
		}
		if got[j] != want {
			return false
		}
	}
	return true
}

func ZZH_C08_RemoveElementAt() {
	n := zzvIntIn(0, zzvBound("elems", 4, 5))
	_ = n
	d, ref := zzhBody(n)
	i := zzvInt()
	ok := d.RemoveElementAt(i)
	if zzvAnd(i >= 0, i < len(ref)) {
		zzvAssert(ok, "RemoveElementAt: in-range index succeeds")
		zzvAssert(zzhRefWithout(d.Body.Elements, ref, i), "RemoveElementAt: exactly that element removed, rest in order")
		zzvReach("removed")
	} else {
		zzvAssert(!ok, "RemoveElementAt: out-of-range index reports failure")
		zzvAssert(zzhSameElems(d.Body.Elements, ref), "RemoveElementAt: failure changes nothing")
		zzvReach("rejected")
	}
}
