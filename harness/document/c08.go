package document

// C08: body editing behaves like an ordered list of elements.
//
// One inductive step from an arbitrary body: the pre-state is a body of n
// elements of solver-chosen kinds (n <= bound), the operation's arguments are
// symbolic, and the list post-conditions are asserted for all of them.

func zzhBodyKinds(n int, maxSect int) (*Document, []interface{}) {
	d := New()
	sect := 0
	for i := 0; i < n; i++ {
		switch zzvChoice(5) {
		case 0:
			d.Body.Elements = append(d.Body.Elements, &Paragraph{Runs: []Run{{Text: Text{Content: zzvString()}}}})
		case 1:
			d.Body.Elements = append(d.Body.Elements, &Table{})
		case 2:
			sect++
			zzvAssume(sect <= maxSect)
			d.Body.Elements = append(d.Body.Elements, &SectionProperties{})
		case 3:
			d.Body.Elements = append(d.Body.Elements, &BookmarkStart{ID: "b", Name: "n"})
		case 4:
			d.Body.Elements = append(d.Body.Elements, &BookmarkEnd{ID: "b"})
		}
	}
	ref := append([]interface{}(nil), d.Body.Elements...)
	return d, ref
}

func zzhBody(n int) (*Document, []interface{}) { return zzhBodyKinds(n, 99) }

func zzhSameElems(a, b []interface{}) bool {
	if len(a) != len(b) {
		return false
	}
	for i := range a {
		if a[i] != b[i] {
			return false
		}
	}
	return true
}

// zzhRefWithout reports whether got equals ref with element k removed.
func zzhRefWithout(got, ref []interface{}, k int) bool {
	if len(got) != len(ref)-1 {
		return false
	}
	for j := range got {
		want := ref[j]
		if j >= k {
			want = ref[j+1]
		}
		if got[j] != want {
			return false
		}
	}
	return true
}

// zzhHasPrefix: got starts with exactly the elements of ref, in order.
func zzhHasPrefix(got, ref []interface{}) bool {
	if len(got) < len(ref) {
		return false
	}
	for i := range ref {
		if got[i] != ref[i] {
			return false
		}
	}
	return true
}

func zzhCountParas(es []interface{}) int {
	n := 0
	for _, e := range es {
		if _, ok := e.(*Paragraph); ok {
			n++
		}
	}
	return n
}

// zzhNthPara returns the element index of the k-th paragraph (or -1).
func zzhNthPara(es []interface{}, k int) int {
	c := 0
	for i, e := range es {
		if _, ok := e.(*Paragraph); ok {
			if c == k {
				return i
			}
			c++
		}
	}
	return -1
}

func ZZH_C08_RemoveElementAt() {
	n := zzvIntIn(0, zzvBound("elems", 4, 5))
	d, ref := zzhBody(n)
	i := zzvInt()
	ok := d.RemoveElementAt(i)
	if zzvAnd(i >= 0, i < len(ref)) {
		zzvAssert(ok, "RemoveElementAt: in-range index succeeds")
		zzvAssert(zzhRefWithout(d.Body.Elements, ref, i), "RemoveElementAt: exactly that element removed, rest in order")
		zzvReach("removed")
	} else {
		zzvAssert(!ok, "RemoveElementAt: out-of-range index reports failure")
		zzvAssert(zzhSameElems(d.Body.Elements, ref), "RemoveElementAt: failure changes nothing")
		zzvReach("rejected")
	}
}

func ZZH_C08_RemoveParagraphAt() {
	n := zzvIntIn(0, zzvBound("elems", 4, 5))
	d, ref := zzhBody(n)
	np := zzhCountParas(ref)
	i := zzvInt()
	ok := d.RemoveParagraphAt(i)
	if zzvAnd(i >= 0, i < np) {
		zzvAssert(ok, "RemoveParagraphAt: in-range paragraph index succeeds")
		k := zzhNthPara(ref, i)
		zzvAssert(k >= 0, "RemoveParagraphAt: reference finds the paragraph")
		zzvAssert(zzhRefWithout(d.Body.Elements, ref, k), "RemoveParagraphAt: exactly the i-th paragraph removed, rest in order")
		zzvReach("removed")
	} else {
		zzvAssert(!ok, "RemoveParagraphAt: out-of-range paragraph index reports failure")
		zzvAssert(zzhSameElems(d.Body.Elements, ref), "RemoveParagraphAt: failure changes nothing")
		zzvReach("rejected")
	}
}

func ZZH_C08_RemoveParagraphByHandle() {
	n := zzvIntIn(0, zzvBound("elems", 4, 5))
	d, ref := zzhBody(n)
	var h *Paragraph
	k := -1
	switch zzvChoice(4) {
	case 0: // a paragraph of the body
		k = zzvIntIn(0, len(ref)-1)
		p, isP := ref[k].(*Paragraph)
		zzvAssume(isP)
		h = p
	case 1: // a foreign paragraph (structurally equal to one in the body is allowed)
		h = &Paragraph{Runs: []Run{{Text: Text{Content: zzvString()}}}}
	case 2: // nil handle
		h = nil
	case 3: // a handle that was already removed
		k0 := zzvIntIn(0, len(ref)-1)
		p, isP := ref[k0].(*Paragraph)
		zzvAssume(isP)
		zzvAssume(d.RemoveParagraph(p))
		ref = append([]interface{}(nil), d.Body.Elements...)
		h = p
	}
	ok := d.RemoveParagraph(h)
	if k >= 0 {
		zzvAssert(ok, "RemoveParagraph: handle of a body paragraph succeeds")
		zzvAssert(zzhRefWithout(d.Body.Elements, ref, k), "RemoveParagraph: exactly that paragraph removed, rest in order")
		zzvReach("removed")
	} else {
		zzvAssert(!ok, "RemoveParagraph: unknown/removed/nil handle reports failure")
		zzvAssert(zzhSameElems(d.Body.Elements, ref), "RemoveParagraph: failure changes nothing")
		zzvReach("rejected")
	}
}

// zzhParaHasText: some run of p carries exactly the text.
func zzhParaHasText(p *Paragraph, text string) bool {
	found := false
	for i := range p.Runs {
		found = zzvOr(found, p.Runs[i].Text.Content == text)
	}
	return found
}

// zzhTailIsNew: everything after the first n elements is new (not one of ref) and the
// handle p is among them exactly once.
func zzhTailHolds(got, ref []interface{}, p *Paragraph) bool {
	cnt := 0
	for i := len(ref); i < len(got); i++ {
		for _, r := range ref {
			if got[i] == r {
				return false
			}
		}
		if q, ok := got[i].(*Paragraph); ok && q == p {
			cnt++
		}
	}
	return cnt == 1
}

func ZZH_C08_AppendParagraph()          { zzhAppendPara(0) }
func ZZH_C08_AppendFormattedNil()       { zzhAppendPara(1) }
func ZZH_C08_AppendFormatted()          { zzhAppendPara(2) }
func ZZH_C08_AppendHeading()            { zzhAppendPara(3) }
func ZZH_C08_AppendHeadingBookmark()    { zzhAppendPara(4) }
func ZZH_C08_AppendHeadingWithBookmark() { zzhAppendPara(5) }
func ZZH_C08_AppendListItem()           { zzhAppendPara(6) }

// zzhLevel: heading levels -1..10 (below, inside and above the valid 1..9), one path each.
func zzhLevel() int { return zzvChoice(12) - 1 }

func zzhAppendPara(op int) {
	n := zzvIntIn(0, zzvBound("elems_append", 3, 4))
	d, ref := zzhBody(n)
	text := zzvString()
	var p *Paragraph
	switch op {
	case 0:
		p = d.AddParagraph(text)
	case 1:
		p = d.AddFormattedParagraph(text, nil)
	case 2:
		p = d.AddFormattedParagraph(text, &TextFormat{Bold: zzvBool(), Italic: zzvBool(), FontSize: zzvIntIn(0, 100), FontColor: zzvString(), FontFamily: zzvString()})
	case 3:
		p = d.AddHeadingParagraph(text, zzhLevel())
	case 4:
		p = d.AddHeadingParagraphWithBookmark(text, zzhLevel(), zzvString())
	case 5:
		p = d.AddHeadingWithBookmark(text, zzhLevel(), zzvString())
	case 6:
		p = d.AddListItem(text, nil)
		zzvAssume(text != "") // an empty list item legitimately has no run
	}
	got := d.Body.Elements
	zzvAssert(p != nil, "append: returns the new paragraph")
	zzvAssert(zzhHasPrefix(got, ref), "append: earlier elements undisturbed and in order")
	zzvAssert(len(got) > len(ref), "append: body grew")
	zzvAssert(zzhTailHolds(got, ref, p), "append: the new paragraph is in the appended tail exactly once")
	zzvAssert(zzhParaHasText(p, text), "append: the new paragraph carries the text")
	// the new paragraph is the last paragraph of the body
	lastP := zzhNthPara(got, zzhCountParas(got)-1)
	zzvAssert(lastP >= len(ref) && got[lastP] == interface{}(p), "append: new paragraph is the last paragraph")
	zzvReach("appended")
}

func ZZH_C08_AppendOther() {
	n := zzvIntIn(0, zzvBound("elems_append", 3, 4))
	d, ref := zzhBody(n)
	op := zzvChoice(5)
	switch op {
	case 0:
		d.AddPageBreak()
		got := d.Body.Elements
		zzvAssert(len(got) == len(ref)+1, "AddPageBreak: exactly one element appended")
		p, isP := got[len(got)-1].(*Paragraph)
		zzvAssert(isP && len(p.Runs) == 1 && p.Runs[0].Break != nil && p.Runs[0].Break.Type == "page", "AddPageBreak: last element is a page-break paragraph")
	case 1:
		rows, cols := zzvIntIn(-1, 2), zzvIntIn(-1, 2)
		t, err := d.AddTable(&TableConfig{Rows: rows, Cols: cols, Width: 4000})
		got := d.Body.Elements
		if err != nil {
			zzvAssert(zzhSameElems(got, ref), "AddTable: failure changes nothing")
			zzvReach("table-rejected")
		} else {
			zzvAssert(len(got) == len(ref)+1 && got[len(got)-1] == interface{}(t), "AddTable: the new table is the last element")
			zzvAssert(t.GetRowCount() == rows && t.GetColumnCount() == cols, "AddTable: requested shape")
			zzvReach("table-added")
		}
	case 2:
		var e interface{}
		switch zzvChoice(3) {
		case 0:
			e = &Paragraph{}
		case 1:
			e = &Table{}
		case 2:
			e = &BookmarkEnd{ID: "x"}
		}
		d.Body.AddElement(e)
		got := d.Body.Elements
		zzvAssert(len(got) == len(ref)+1 && got[len(got)-1] == e, "AddElement: element appended last")
	case 3:
		err := d.AddFootnote(zzvString(), zzvString())
		zzvAssert(err == nil, "AddFootnote: succeeds")
		got := d.Body.Elements
		zzvAssert(len(got) == len(ref)+1, "AddFootnote: exactly one element appended")
		_, isP := got[len(got)-1].(*Paragraph)
		zzvAssert(isP, "AddFootnote: appended element is a paragraph")
	case 4:
		data := []byte("\x89PNG\r\n\x1a\n0000")
		info, err := d.AddImageFromData(data, zzhPicNames[zzvChoice(len(zzhPicNames))], ImageFormatPNG, zzvIntIn(1, 4000), zzvIntIn(1, 4000), nil)
		zzvAssert(err == nil && info != nil, "AddImageFromData: succeeds")
		got := d.Body.Elements
		zzvAssert(len(got) == len(ref)+1, "AddImageFromData: exactly one element appended")
		p, isP := got[len(got)-1].(*Paragraph)
		zzvAssert(isP && len(p.Runs) == 1 && p.Runs[0].Drawing != nil, "AddImageFromData: appended element is a picture paragraph")
	}
	zzvAssert(zzhHasPrefix(d.Body.Elements, ref), "append: earlier elements undisturbed and in order")
	zzvReach("done")
}

// Section-settings creating calls: leave every other element where it was (in order),
// and the body holds exactly one section-settings element afterwards.
func ZZH_C08_SectionCreators() {
	n := zzvIntIn(0, zzvBound("elems_sect", 3, 4))
	d, ref := zzhBodyKinds(n, 1)
	switch zzvChoice(4) {
	case 0:
		zzvAssume(d.SetPageMargins(20, 20, 20, 20) == nil)
	case 1:
		zzvAssume(d.AddHeader(HeaderFooterTypeDefault, zzvString()) == nil)
	case 2:
		d.SetDifferentFirstPage(zzvBool())
	case 3:
		zzvAssume(d.SetPageOrientation(OrientationLandscape) == nil)
	}
	got := d.Body.Elements
	var a, b []interface{}
	ns := 0
	for _, e := range got {
		if _, ok := e.(*SectionProperties); ok {
			ns++
		} else {
			a = append(a, e)
		}
	}
	for _, e := range ref {
		if _, ok := e.(*SectionProperties); !ok {
			b = append(b, e)
		}
	}
	zzvAssert(zzhSameElems(a, b), "section creators: all other elements undisturbed and in order")
	zzvAssert(ns == 1, "section creators: exactly one section-settings element afterwards")
	zzvReach("done")
}

// The saved main part lists the elements in list order, section settings exactly once, last.
// Body.MarshalXML is executed against a recording xml.Encoder (native replay: real
// encoding/xml + Decoder).
func ZZH_C08_MarshalOrder() {
	n := zzvIntIn(0, zzvBound("elems_marshal", 4, 5))
	d := New()
	var want []string
	sect := 0
	for i := 0; i < n; i++ {
		switch zzvChoice(4) {
		case 0:
			txt := "e" + zzvItoa(i)
			d.Body.Elements = append(d.Body.Elements, &Paragraph{Runs: []Run{{Text: Text{Content: txt}}}})
			want = append(want, "Paragraph:"+txt)
		case 1:
			d.Body.Elements = append(d.Body.Elements, &Table{})
			want = append(want, "Table")
		case 2:
			sect++
			zzvAssume(sect <= 1)
			d.Body.Elements = append(d.Body.Elements, &SectionProperties{})
		case 3:
			d.Body.Elements = append(d.Body.Elements, &BookmarkEnd{ID: "b"})
			want = append(want, "BookmarkEnd")
		}
	}
	if sect == 1 {
		want = append(want, "SectionProperties")
	}
	before := append([]interface{}(nil), d.Body.Elements...)
	got := zzvBodyChildren(d.Body)
	ok := len(got) == len(want)
	if ok {
		for i := range got {
			if got[i] != want[i] {
				ok = false
			}
		}
	}
	zzvAssert(ok, "marshal: children are the non-section elements in list order, then the section settings exactly once, last")
	// serialising is an observation: the body list is what it was, and a second save says the same
	same := len(d.Body.Elements) == len(before)
	if same {
		for i := range before {
			if d.Body.Elements[i] != before[i] {
				same = false
			}
		}
	}
	zzvAssert(same, "marshal: serialising leaves the body element list untouched")
	again := zzvBodyChildren(d.Body)
	ok2 := len(again) == len(want)
	if ok2 {
		for i := range again {
			if again[i] != want[i] {
				ok2 = false
			}
		}
	}
	zzvAssert(ok2, "marshal: a second serialisation lists the same children")
	zzvReach("marshalled")
}
