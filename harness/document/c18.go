package document

// C18: rendering a document template changes only its placeholders.

// zzhFullDocument: a document whose body holds a fully populated paragraph, table (with a nested
// table) and section settings, plus a header part, a picture and their relationships.
func zzhFullDocument() *Document {
	src := New()
	p := &Paragraph{}
	zzvFill(p)
	t := &Table{}
	zzvFill(t)
	inner := Table{}
	zzvFill(&inner)
	t.Rows[0].Cells[0].Tables = []Table{inner}
	sp := &SectionProperties{}
	zzvFill(sp)
	src.Body.Elements = []interface{}{p, t}
	zzvAssume(src.AddHeader(HeaderFooterTypeDefault, zzvString()) == nil)
	_, err := src.AddImageFromData(zzhPNG, "a.png", ImageFormatPNG, 3, 2, nil)
	zzvAssume(err == nil)
	// the filled section settings replace the ones AddHeader created, keeping its reference
	cur := src.getSectionProperties()
	sp.HeaderReferences = cur.HeaderReferences
	sp.FooterReferences = nil
	for i, e := range src.Body.Elements {
		if e == interface{}(cur) {
			src.Body.Elements[i] = sp
		}
	}
	return src
}

// The deep clone every rendering starts from: complete (one obligation per field path),
// independent of the base document (no shared mutable memory), and taken without touching it.
func ZZH_C18_CloneDocument() {
	src := zzhFullDocument()
	te := NewTemplateEngine()
	zzvFreeze(src, "base document during cloneDocument")
	cl := te.cloneDocument(src)
	zzvUnfreeze()
	zzvAssert(cl != nil && cl.Body != nil, "clone: a document is returned")
	zzvKnown("KF-C18-clone-shares-run-content", "clone: Run.InstrText is not shared|clone: Run.FieldChar is not shared|clone: Run.Drawing is not shared")
	zzvKnown("KF-C18-clone-drops-fields", "clone: Run.Break survives|clone: ParagraphProperties.WidowControl survives|clone: ParagraphProperties.SnapToGrid survives|clone: ParagraphProperties.ParagraphBorder survives|clone: ParagraphProperties.PageBreakBefore survives|clone: ParagraphProperties.OutlineLevel survives|clone: ParagraphProperties.KeepNext survives|clone: ParagraphProperties.KeepLines survives")
	zzvAssertDisjoint(interface{}(cl), interface{}(src), "clone")
	zzhSameBody(src, cl, "clone")
	zzvAssertSame(interface{}(src.documentRelationships), interface{}(cl.documentRelationships), "clone")
	zzvAssertSame(interface{}(src.contentTypes), interface{}(cl.contentTypes), "clone")
	zzvAssertSame(interface{}(src.relationships), interface{}(cl.relationships), "clone")
	zzvAssert(cl.nextImageID == src.nextImageID, "clone: the image counter is carried over")
	for name, data := range src.parts {
		if name == "word/document.xml" {
			continue
		}
		got, ok := cl.parts[name]
		zzvAssert(ok, "clone: every part of the base document is present")
		if ok {
			zzvAssertSame(interface{}(data), interface{}(got), "clone part")
		}
	}
	zzvReach("cloned")
}

// Template rendering starts from this clone: for C02 (relationships of rendered documents) and
// C11 (header/footer definitions survive rendering) the relevant slices of the same check.
func ZZH_C02_TemplateCloneRelationships() {
	src := zzhFullDocument()
	te := NewTemplateEngine()
	cl := te.cloneDocument(src)
	zzvAssert(cl != nil && cl.documentRelationships != nil, "template clone: the rendered document has its document relationships")
	zzvAssertDisjoint(interface{}(cl.documentRelationships), interface{}(src), "template clone relationships")
	zzvAssertSame(interface{}(src.documentRelationships), interface{}(cl.documentRelationships), "template clone relationships")
	zzvAssertDisjoint(interface{}(cl.parts), interface{}(src), "template clone parts")
	// adding a picture to the rendered copy leaves the template's relationships and parts alone
	before := len(src.documentRelationships.Relationships)
	nparts := len(src.parts)
	_, err := cl.AddImageFromDataWithoutElement([]byte(zzvString()), "x.png", ImageFormatPNG, 1, 1, nil)
	zzvAssert(err == nil, "template clone: a picture can be added to the rendered document")
	zzvAssert(len(src.documentRelationships.Relationships) == before && len(src.parts) == nparts, "template clone: adding to the rendered document does not change the template's relationships or parts")
	zzvReach("cloned")
}

func ZZH_C11_TemplateCloneReferences() {
	src := New()
	plain := func(d *Document) {
		kind := zzhKinds[zzvChoice(3)]
		if zzvBool() {
			zzvAssume(d.AddHeader(kind, "t") == nil)
		} else {
			zzvAssume(d.AddFooter(kind, "t") == nil)
		}
	}
	k := 1 + zzvChoice(2)
	for i := 0; i < k; i++ {
		plain(src)
	}
	te := NewTemplateEngine()
	cl := te.cloneDocument(src)
	ssp, csp := src.getSectionProperties(), cl.getSectionProperties()
	zzvAssertSame(interface{}(ssp), interface{}(csp), "template clone section settings")
	zzvAssertDisjoint(interface{}(csp), interface{}(src), "template clone section settings")
	// the rendered copy resolves its references like the template does
	zzhCheckRefs(cl)
	// redefining a kind on the rendered copy leaves the template's references alone
	snap := zzvDeepCopy(ssp)
	plain(cl)
	zzvAssert(zzvSameShape(snap, ssp), "template clone: redefining a header/footer on the rendered document does not change the template's references")
	zzhCheckRefs(src)
	zzvReach("cloned")
}
