package document

import "bytes"

// C18: rendering a document template changes only its placeholders.

// zzhFullDocument: a document whose body holds a fully populated paragraph, table (with a nested
// table) and section settings, plus a header part, a picture and their relationships.
func zzhFullDocument() *Document {
	src := New()
	p := &Paragraph{}
	zzvFill(p)
	t := &Table{}
	zzvFill(t)
	inner := Table{}
	zzvFill(&inner)
	t.Rows[0].Cells[0].Tables = []Table{inner}
	sp := &SectionProperties{}
	zzvFill(sp)
	src.Body.Elements = []interface{}{p, t}
	zzvAssume(src.AddHeader(HeaderFooterTypeDefault, zzvString()) == nil)
	_, err := src.AddImageFromData(zzhPNG, "a.png", ImageFormatPNG, 3, 2, nil)
	zzvAssume(err == nil)
	// the filled section settings replace the ones AddHeader created, keeping its reference
	cur := src.getSectionProperties()
	sp.HeaderReferences = cur.HeaderReferences
	sp.FooterReferences = nil
	for i, e := range src.Body.Elements {
		if e == interface{}(cur) {
			src.Body.Elements[i] = sp
		}
	}
	return src
}

// The deep clone every rendering starts from: complete (one obligation per field path),
// independent of the base document (no shared mutable memory), and taken without touching it.
func ZZH_C18_CloneDocument() {
	src := zzhFullDocument()
	te := NewTemplateEngine()
	zzvFreeze(src, "base document during cloneDocument")
	cl := te.cloneDocument(src)
	zzvUnfreeze()
	zzvAssert(cl != nil && cl.Body != nil, "clone: a document is returned")
	zzvKnown("KF-C18-clone-shares-run-content", "clone: Run.InstrText is not shared|clone: Run.FieldChar is not shared|clone: Run.Drawing is not shared")
	zzvKnown("KF-C18-clone-drops-fields", "clone: Run.Break survives|clone: ParagraphProperties.WidowControl survives|clone: ParagraphProperties.SnapToGrid survives|clone: ParagraphProperties.ParagraphBorder survives|clone: ParagraphProperties.PageBreakBefore survives|clone: ParagraphProperties.OutlineLevel survives|clone: ParagraphProperties.KeepNext survives|clone: ParagraphProperties.KeepLines survives")
	zzvAssertDisjoint(interface{}(cl), interface{}(src), "clone")
	zzhSameBody(src, cl, "clone")
	zzvAssertSame(interface{}(src.documentRelationships), interface{}(cl.documentRelationships), "clone")
	zzvAssertSame(interface{}(src.contentTypes), interface{}(cl.contentTypes), "clone")
	zzvAssertSame(interface{}(src.relationships), interface{}(cl.relationships), "clone")
	zzvAssert(cl.nextImageID == src.nextImageID, "clone: the image counter is carried over")
	for name, data := range src.parts {
		if name == "word/document.xml" {
			continue
		}
		got, ok := cl.parts[name]
		zzvAssert(ok, "clone: every part of the base document is present")
		if ok {
			zzvAssertSame(interface{}(data), interface{}(got), "clone part")
		}
	}
	zzvReach("cloned")
}

// Template rendering starts from this clone: for C02 (relationships of rendered documents) and
// C11 (header/footer definitions survive rendering) the relevant slices of the same check.
func ZZH_C02_TemplateCloneRelationships() {
	src := zzhFullDocument()
	te := NewTemplateEngine()
	cl := te.cloneDocument(src)
	zzvAssert(cl != nil && cl.documentRelationships != nil, "template clone: the rendered document has its document relationships")
	zzvAssertDisjoint(interface{}(cl.documentRelationships), interface{}(src), "template clone relationships")
	zzvAssertSame(interface{}(src.documentRelationships), interface{}(cl.documentRelationships), "template clone relationships")
	zzvAssertDisjoint(interface{}(cl.parts), interface{}(src), "template clone parts")
	// adding a picture to the rendered copy leaves the template's relationships and parts alone
	before := len(src.documentRelationships.Relationships)
	nparts := len(src.parts)
	_, err := cl.AddImageFromDataWithoutElement([]byte(zzvString()), "x.png", ImageFormatPNG, 1, 1, nil)
	zzvAssert(err == nil, "template clone: a picture can be added to the rendered document")
	zzvAssert(len(src.documentRelationships.Relationships) == before && len(src.parts) == nparts, "template clone: adding to the rendered document does not change the template's relationships or parts")
	zzvReach("cloned")
}

func ZZH_C11_TemplateCloneReferences() {
	src := New()
	plain := func(d *Document) {
		kind := zzhKinds[zzvChoice(3)]
		if zzvBool() {
			zzvAssume(d.AddHeader(kind, "t") == nil)
		} else {
			zzvAssume(d.AddFooter(kind, "t") == nil)
		}
	}
	k := 1 + zzvChoice(2)
	for i := 0; i < k; i++ {
		plain(src)
	}
	te := NewTemplateEngine()
	cl := te.cloneDocument(src)
	ssp, csp := src.getSectionProperties(), cl.getSectionProperties()
	zzvAssertSame(interface{}(ssp), interface{}(csp), "template clone section settings")
	zzvAssertDisjoint(interface{}(csp), interface{}(src), "template clone section settings")
	// the rendered copy resolves its references like the template does
	zzhCheckRefs(cl)
	// redefining a kind on the rendered copy leaves the template's references alone
	snap := zzvDeepCopy(ssp)
	plain(cl)
	zzvAssert(zzvSameShape(snap, ssp), "template clone: redefining a header/footer on the rendered document does not change the template's references")
	zzhCheckRefs(src)
	zzvReach("cloned")
}

// ---- placeholder substitution at run level ----

type zzhColored struct{ text, color string }

// zzhNormalise merges adjacent pieces of the same colour and drops empty ones: the run
// segmentation itself is not part of the property, text and formatting per character are.
func zzhNormalise(in []zzhColored) []zzhColored {
	var out []zzhColored
	for _, p := range in {
		if p.text == "" {
			continue
		}
		if n := len(out); n > 0 && out[n-1].color == p.color {
			out[n-1].text += p.text
			continue
		}
		out = append(out, p)
	}
	return out
}

var zzhRunTemplates = []string{"ab{{name}}cd", "{{name}}", "x{{name}}{{other}}y", "{{name}} and {{name}}", "{{na", "plain text", "a{{other}}b{{name}}"}

// A paragraph whose text (one of several placeholder layouts) is cut into up to three runs at
// solver-chosen positions - so a placeholder may be split across runs anywhere - each run with
// its own formatting: after replaceVariablesInParagraph every placeholder with data is replaced
// by its value, every other character is kept, placeholders without data stay visible, and
// every character carries the formatting of the run it came from (a value: of the run holding
// the placeholder's first character).
func ZZH_C18_PlaceholderAcrossRuns() {
	full := zzhRunTemplates[zzvChoice(len(zzhRunTemplates))]
	b1 := zzvChoice(len(full) + 1)
	b2 := b1 + zzvChoice(len(full)+1-b1)
	cuts := []int{0, b1, b2, len(full)}
	colors := []string{"c0", "c1", "c2"}
	// which formatting attribute tells the three runs apart is a solver choice
	attr := zzvChoice(zzvBound("format_attributes", 3, 5))
	para := &Paragraph{}
	colorAt := make([]string, len(full))
	for i := 0; i < 3; i++ {
		txt := full[cuts[i]:cuts[i+1]]
		rp := &RunProperties{}
		switch attr {
		case 0:
			rp.Color = &Color{Val: colors[i]}
		case 1:
			rp.Highlight = &Highlight{Val: colors[i]}
		case 2:
			rp.FontSize = &FontSize{Val: colors[i]}
		case 3:
			rp.FontFamily = &FontFamily{ASCII: colors[i]}
		case 4:
			rp.Underline = &Underline{Val: colors[i]}
		}
		para.Runs = append(para.Runs, Run{Text: Text{Content: txt}, Properties: rp})
		for j := cuts[i]; j < cuts[i+1]; j++ {
			colorAt[j] = colors[i]
		}
	}
	td := NewTemplateData()
	value := zzhValue(2)
	hasName, hasOther := zzvBool(), zzvBool()
	if hasName {
		td.SetVariable("name", value)
	}
	if hasOther {
		td.SetVariable("other", "OTHER")
	}
	// reference, character by character: (character, formatting, formatting is checked)
	type ch struct {
		c, color string
		strict   bool
	}
	var want []ch
	for i := 0; i < len(full); {
		matched := false
		for _, v := range []struct {
			ph, val string
			has     bool
		}{{"{{name}}", value, hasName}, {"{{other}}", "OTHER", hasOther}} {
			if i+len(v.ph) <= len(full) && full[i:i+len(v.ph)] == v.ph {
				if v.has {
					for k := 0; k < len(v.val); k++ {
						want = append(want, ch{v.val[k : k+1], colorAt[i], true})
					}
				} else {
					// kept visible; how the characters of an unresolved placeholder are formatted is
					// not part of the property
					for k := 0; k < len(v.ph); k++ {
						want = append(want, ch{v.ph[k : k+1], "", false})
					}
				}
				i += len(v.ph)
				matched = true
				break
			}
		}
		if !matched {
			want = append(want, ch{full[i : i+1], colorAt[i], true})
			i++
		}
	}
	te := NewTemplateEngine()
	zzvAssert(te.replaceVariablesInParagraph(para, td) == nil, "substitution succeeds")
	var got []ch
	for _, r := range para.Runs {
		c := ""
		if rp := r.Properties; rp != nil {
			// the formatting signature of the run: every attribute that is set
			if rp.Color != nil {
				c += rp.Color.Val
			}
			if rp.Highlight != nil {
				c += rp.Highlight.Val
			}
			if rp.FontSize != nil {
				c += rp.FontSize.Val
			}
			if rp.FontFamily != nil {
				c += rp.FontFamily.ASCII
			}
			if rp.Underline != nil {
				c += rp.Underline.Val
			}
		}
		t := r.Text.Content
		for k := 0; k < len(t); k++ {
			got = append(got, ch{t[k : k+1], c, true})
		}
	}
	zzvAssert(len(got) == len(want), "placeholders: the paragraph text is the original with every placeholder that has data replaced by its value and everything else kept")
	if len(got) == len(want) {
		textOK, fmtOK := true, true
		for i := range got {
			textOK = zzvAnd(textOK, got[i].c == want[i].c)
			if want[i].strict {
				fmtOK = zzvAnd(fmtOK, got[i].color == want[i].color)
			}
		}
		zzvAssert(textOK, "placeholders: the paragraph text is the original with every placeholder that has data replaced by its value and everything else kept")
		zzvAssert(fmtOK, "placeholders: every character keeps the formatting of the run it came from; a value takes the formatting of the run holding the placeholder's first character")
	}
	zzvReach("substituted")
}

// ---- image placeholders ----

// zzhEmbedOf: the relationship id a picture paragraph embeds ("" if the paragraph holds no picture).
func zzhEmbedOf(p *Paragraph) string {
	for _, r := range p.Runs {
		if r.Drawing == nil {
			continue
		}
		var g *DrawingGraphic
		if r.Drawing.Inline != nil {
			g = r.Drawing.Inline.Graphic
		} else if r.Drawing.Anchor != nil {
			g = r.Drawing.Anchor.Graphic
		}
		if g != nil && g.GraphicData != nil && g.GraphicData.Pic != nil && g.GraphicData.Pic.BlipFill != nil && g.GraphicData.Pic.BlipFill.Blip != nil {
			return g.GraphicData.Pic.BlipFill.Blip.Embed
		}
	}
	return ""
}

var zzhImagePlaceholders = []struct{ text, name string }{{"{{#image a}}", "a"}, {"{{#image b}}", "b"}, {"[IMAGE:a]", "a"}, {"[IMAGE:b]", "b"}}

// A paragraph whose text is  t0 P1 t1 [P2 t2]  - the P image placeholders of either spelling
// for the names a and b (equal or different, so the same placeholder may occur twice), the t
// solver-chosen texts (nothing, a symbolic letter, a letter between blanks, [thorough: a blank]) - cut into two
// runs at the start, inside or at the end: processImagePlaceholdersInParagraph yields, in reading order, one
// paragraph per non-blank text holding exactly that text, and per placeholder the picture of
// that name (resolving through its relationship to exactly that image's bytes) or, without
// data, a visible marker; nothing else.
func ZZH_C18_ImagePlaceholders() {
	type want struct {
		text string
		pic  string
	}
	var wants []want
	full := ""
	kinds := zzvBound("text_kinds", 3, 4)
	text := func() {
		t := ""
		switch zzvChoice(kinds) {
		case 1:
			t = zzvByteString(1)
			zzvAssume(len(t) == 1 && t[0] >= 'a' && t[0] <= 'z')
		case 2:
			w := zzvByteString(1)
			zzvAssume(len(w) == 1 && w[0] >= 'a' && w[0] <= 'z')
			t = " " + w + " "
		case 3:
			t = " "
		}
		full += t
		if t != "" && t != " " {
			wants = append(wants, want{text: t})
		}
	}
	hasB := zzvBool()
	text()
	n := 1 + zzvChoice(2)
	for i := 0; i < n; i++ {
		ph := zzhImagePlaceholders[zzvChoice(len(zzhImagePlaceholders))]
		full += ph.text
		if ph.name == "a" || hasB {
			wants = append(wants, want{pic: ph.name})
		} else {
			wants = append(wants, want{text: "[图片未找到: b]"})
		}
		text()
	}
	// the cut only decides which run a text paragraph is cloned from: start, inside, end
	cut := [...]int{0, 5, len(full)}[zzvChoice(3)]
	if cut > len(full) {
		cut = len(full)
	}
	para := &Paragraph{Runs: []Run{{Text: Text{Content: full[:cut]}}, {Text: Text{Content: full[cut:]}}}}
	imgs := map[string][]byte{"a": append(append([]byte{}, zzhPNG...), 'A'), "b": append(append([]byte{}, zzhPNG...), 'B')}
	td := NewTemplateData()
	td.Images["a"] = &TemplateImageData{Data: imgs["a"]}
	if hasB {
		td.Images["b"] = &TemplateImageData{Data: imgs["b"]}
	}
	doc := New()
	te := NewTemplateEngine()
	out, err := te.processImagePlaceholdersInParagraph(para, td, doc)
	zzvAssert(err == nil, "image placeholders: processing succeeds")
	if err != nil {
		return
	}
	zzvAssert(len(out) == len(wants), "image placeholders: one paragraph per non-blank text and per placeholder, nothing else")
	if len(out) != len(wants) {
		return
	}
	for i, w := range wants {
		p, isPara := out[i].(*Paragraph)
		zzvAssert(isPara && p != nil, "image placeholders: every resulting element is a paragraph")
		if !isPara || p == nil {
			return
		}
		got := ""
		for _, r := range p.Runs {
			got += r.Text.Content
		}
		if w.pic == "" {
			zzvAssert(got == w.text && zzhEmbedOf(p) == "", "image placeholders: the text between placeholders is kept, in reading order")
			continue
		}
		id := zzhEmbedOf(p)
		zzvAssert(id != "" && got == "", "image placeholders: a placeholder with data becomes a picture paragraph")
		cnt, target := 0, ""
		for _, r := range doc.documentRelationships.Relationships {
			if r.ID == id {
				cnt++
				target = r.Target
			}
		}
		zzvAssert(cnt == 1, "image placeholders: the picture's relationship id names exactly one relationship")
		part, present := doc.parts["word/"+target]
		zzvAssert(present && bytes.Equal(part, imgs[w.pic]), "image placeholders: each picture resolves to the bytes supplied for its name")
	}
	zzvReach("image placeholders processed")
}

// ---- table row loops ----

// zzhLoopTable: a 3 x 2 table whose middle row is a row loop over "items".
func zzhLoopTable(d *Document) *Table {
	t, err := d.AddTable(&TableConfig{Rows: 3, Cols: 2, Width: 3000})
	zzvAssume(err == nil && t != nil)
	for _, c := range []struct {
		r, c int
		s    string
	}{{0, 0, "head"}, {0, 1, "hcol"}, {1, 0, "{{#each items}}{{iname}}"}, {1, 1, "{{qty}}{{/each}}"}, {2, 0, "foot"}, {2, 1, "fcol"}} {
		zzvAssume(t.SetCellText(c.r, c.c, c.s) == nil)
	}
	return t
}

// A table whose middle row holds a loop is expanded into one row per item, in item order, each
// row carrying the item's field values; the rows before and after keep their content and
// place; with no items (list empty or never supplied) the template row disappears.
func ZZH_C18_TableRowLoop() {
	d := New()
	t := zzhLoopTable(d)
	n := zzvChoice(zzvBound("row_items", 3, 4))
	supplied := n > 0 || zzvBool()
	td := NewTemplateData()
	var items []interface{}
	var names, qtys []string
	for i := 0; i < n; i++ {
		name, qty := zzhValue(2), zzhValue(1)
		names, qtys = append(names, name), append(qtys, qty)
		items = append(items, map[string]interface{}{"iname": name, "qty": qty})
	}
	if supplied {
		td.SetList("items", items)
	}
	te := NewTemplateEngine()
	zzvAssert(te.renderTableTemplate(t, td) == nil, "row loop: expansion succeeds")
	zzvAssert(t.GetRowCount() == 2+n, "row loop: one row per item between the rows that were there")
	if t.GetRowCount() != 2+n {
		return
	}
	cell := func(r, c int) string {
		s, err := t.GetCellText(r, c)
		zzvAssert(err == nil, "row loop: every row keeps its cells")
		return s
	}
	zzvAssert(cell(0, 0) == "head" && cell(0, 1) == "hcol", "row loop: the rows before the loop row keep their content")
	zzvAssert(cell(1+n, 0) == "foot" && cell(1+n, 1) == "fcol", "row loop: the rows after the loop row keep their content")
	for i := 0; i < n; i++ {
		zzvAssert(cell(1+i, 0) == names[i] && cell(1+i, 1) == qtys[i], "row loop: each item's row carries that item's field values, in item order")
	}
	zzvReach("row loop expanded")
}
