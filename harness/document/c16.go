package document

// C16: text templates render according to the documented substitution semantics.
//
// The directive skeleton of a template is one of a fixed list of grammar instances; everything
// else is symbolic: values are semi-symbolic words (zzvByteString over a..z, possibly empty),
// conditions symbolic Bools that may be absent, lists of 0..2 items. The real pipeline
// (LoadTemplate -> renderTemplate: blocks, variables, loops, conditionals) runs on them - its
// regexp passes on subjects that contain the symbolic characters are answered by the real
// matcher on marker-substituted subjects - and must produce the text of a small reference
// interpreter.

// zzhValue: a word of at most n lower-case letters (possibly empty).
func zzhValue(n int) string {
	v := zzvByteString(n)
	for i := 0; i < len(v); i++ {
		zzvAssume(v[i] >= 'a' && v[i] <= 'z')
	}
	return v
}

type zzhItemData struct {
	name string
	flag bool
	sub  []string
	// skeletons with two nested lists: which of the keys the item carries at all, and the second list
	hasSubs, hasNotes bool
	notes             []string
}

type zzhTplData struct {
	name          string
	hasName       bool
	cond, hasCond bool
	items         []zzhItemData
	scalars       []string
}

// zzhPickTplData picks the data a skeleton looks at (the rest stays absent).
func zzhPickTplData(skeleton string) zzhTplData {
	d := zzhTplData{}
	if zzvStrContains(skeleton, "{{name}}") {
		d.name, d.hasName = zzhValue(2), zzvBool()
	}
	if zzvStrContains(skeleton, "#if c") {
		d.cond, d.hasCond = zzvBool(), zzvBool()
	}
	usesItems, usesWords := zzvStrContains(skeleton, "each items"), zzvStrContains(skeleton, "each words")
	if !usesItems && !usesWords {
		return d
	}
	n := zzvChoice(zzvBound("list_items_max", 3, 4))
	for i := 0; i < n; i++ {
		it := zzhItemData{}
		if usesItems {
			it.name, it.flag = zzhValue(1), zzvBool()
			if zzvStrContains(skeleton, "each notes") {
				// items of one list need not carry the same nested lists
				switch zzvChoice(3) {
				case 0:
					it.hasSubs = true
				case 1:
					it.hasNotes = true
				case 2:
					it.hasSubs, it.hasNotes = true, true
				}
				if it.hasSubs {
					it.sub = append(it.sub, zzhValue(1))
				}
				if it.hasNotes {
					it.notes = append(it.notes, zzhValue(1))
				}
			} else if zzvStrContains(skeleton, "each subs") {
				it.hasSubs = true
				m := zzvChoice(3)
				for j := 0; j < m; j++ {
					it.sub = append(it.sub, zzhValue(1))
				}
			} else {
				it.hasSubs = true
			}
		}
		d.items = append(d.items, it)
		w := ""
		if usesWords {
			w = zzhValue(1)
		}
		d.scalars = append(d.scalars, w)
	}
	return d
}

func (d zzhTplData) toTemplateData() *TemplateData {
	td := NewTemplateData()
	if d.hasName {
		td.SetVariable("name", d.name)
	}
	if d.hasCond {
		td.SetCondition("c", d.cond)
	}
	var items, scalars []interface{}
	for i, it := range d.items {
		m := map[string]interface{}{"iname": it.name, "flag": it.flag}
		if it.hasSubs {
			var sub []interface{}
			for _, s := range it.sub {
				sub = append(sub, map[string]interface{}{"v": s})
			}
			m["subs"] = sub
		}
		if it.hasNotes {
			var notes []interface{}
			for _, s := range it.notes {
				notes = append(notes, map[string]interface{}{"n": s})
			}
			m["notes"] = notes
		}
		items = append(items, m)
		scalars = append(scalars, d.scalars[i])
	}
	td.SetList("items", items)
	td.SetList("words", scalars)
	return td
}

func zzhBoolStr(b bool) string {
	if b {
		return "true"
	}
	return "false"
}

// zzhSkeletons: instances of the documented grammar; zzhWantRendered is the reference semantics
// for each of them.
var zzhSkeletons = []string{
	"Hello {{name}}! {{unknown}} end",
	"A{{#if c}}yes {{name}}{{/if}}B",
	"A{{#if c}}yes{{else}}no {{name}}{{/if}}B",
	"L:{{#each items}}[{{iname}}|{{@index}}|{{@first}}|{{@last}}]{{/each}}.",
	"{{#each words}}<{{this}}>{{/each}}{{name}}",
	"{{#each items}}{{iname}}{{#if flag}}!{{/if}};{{/each}}",
	"{{#each items}}{{iname}}({{#each subs}}{{v}},{{/each}}){{/each}}",
	"line one {{name}}\n{{#if c}}line two\n{{/if}}line three",
	"{{#if c}}{{#each words}}{{this}} {{/each}}{{/if}}|{{#if missing}}never{{/if}}",
	"{{#each items}}- {{iname}}{{#if flag}}\n  note {{iname}}\n{{/if}};{{/each}}",
	"{{#each items}}{{iname}}:{{#if flag}}on{{else}}off{{/if}} {{/each}}",
	"A{{#if c}}{{else}}no {{name}}{{/if}}B",
	"{{#each items}}{{iname}}:{{#each subs}}{{v}},{{/each}}{{#each notes}}<{{n}}>{{/each}};{{/each}}",
}

func zzhWantRendered(k int, d zzhTplData) string {
	name := "{{name}}"
	if d.hasName {
		name = d.name
	}
	c := d.hasCond && d.cond
	out := ""
	switch k {
	case 0:
		return "Hello " + name + "! {{unknown}} end"
	case 1:
		if c {
			return "Ayes " + name + "B"
		}
		return "AB"
	case 2:
		if c {
			return "AyesB"
		}
		return "Ano " + name + "B"
	case 3:
		out = "L:"
		for i, it := range d.items {
			out += "[" + it.name + "|" + zzvItoa(i) + "|" + zzhBoolStr(i == 0) + "|" + zzhBoolStr(i == len(d.items)-1) + "]"
		}
		return out + "."
	case 4:
		for _, w := range d.scalars {
			out += "<" + w + ">"
		}
		return out + name
	case 5:
		for _, it := range d.items {
			out += it.name
			if it.flag {
				out += "!"
			}
			out += ";"
		}
		return out
	case 6:
		for _, it := range d.items {
			out += it.name + "("
			for _, s := range it.sub {
				out += s + ","
			}
			out += ")"
		}
		return out
	case 7:
		out = "line one " + name + "\n"
		if c {
			out += "line two\n"
		}
		return out + "line three"
	case 8:
		if c {
			for _, w := range d.scalars {
				out += w + " "
			}
		}
		return out + "|"
	case 10:
		for _, it := range d.items {
			out += it.name + ":"
			if it.flag {
				out += "on "
			} else {
				out += "off "
			}
		}
		return out
	case 11:
		if c {
			return "AB"
		}
		return "Ano " + name + "B"
	case 12:
		for _, it := range d.items {
			out += it.name + ":"
			for _, s := range it.sub {
				out += s + ","
			}
			for _, s := range it.notes {
				out += "<" + s + ">"
			}
			out += ";"
		}
		return out
	case 9:
		for _, it := range d.items {
			out += "- " + it.name
			if it.flag {
				out += "\n  note " + it.name + "\n"
			}
			out += ";"
		}
		return out
	}
	return ""
}

func ZZH_C16_RenderSkeletons() {
	k := zzvChoice(len(zzhSkeletons))
	d := zzhPickTplData(zzhSkeletons[k])
	te := NewTemplateEngine()
	tpl, err := te.LoadTemplate("t", zzhSkeletons[k])
	zzvAssert(err == nil && tpl != nil, "a well-formed template loads")
	if tpl == nil {
		return
	}
	got, err := te.renderTemplate(tpl, d.toTemplateData())
	zzvAssert(err == nil, "rendering succeeds")
	zzvAssert(got == zzhWantRendered(k, d), "render: the output is the text the documented semantics give (variables, conditionals, loops with item fields, index and first/last flags, nested loops)")
	zzvReach("rendered")
}

// Blocks with inheritance: a derived template renders its ancestors' text with the blocks it (or
// a nearer ancestor) overrides replaced, through chains of two and three templates.
func ZZH_C16_BlockInheritance() {
	name := zzhValue(2)
	td := NewTemplateData()
	td.SetVariable("name", name)
	te := NewTemplateEngine()
	_, err := te.LoadTemplate("base", "H[{{#block \"title\"}}default {{name}}{{/block}}]M[{{#block \"body\"}}base body{{/block}}]F")
	zzvAssert(err == nil, "the base template loads")
	depth := 2 + zzvChoice(2)
	midOverridesBody := zzvBool()
	parent := "base"
	if depth == 3 {
		mid := "{{extends \"base\"}}"
		if midOverridesBody {
			mid += "{{#block \"body\"}}mid body{{/block}}"
		}
		_, err = te.LoadTemplate("mid", mid)
		zzvAssert(err == nil, "the middle template loads")
		parent = "mid"
	}
	leaf, err := te.LoadTemplate("leaf", "{{extends \""+parent+"\"}}{{#block \"title\"}}leaf {{name}}{{/block}}")
	zzvAssert(err == nil && leaf != nil, "the derived template loads")
	if leaf == nil {
		return
	}
	got, err := te.renderTemplate(leaf, td)
	zzvAssert(err == nil, "rendering succeeds")
	body := "base body"
	if depth == 3 && midOverridesBody {
		body = "mid body"
	}
	zzvAssert(got == "H[leaf "+name+"]M["+body+"]F", "render: a derived template renders the inherited text with the overridden blocks replaced")
	zzvReach("inherited")
}
