package document

// C17 (sequential half): template rendering is pure and repeatable.

type zzhFrozenRender struct {
	T *Template
	D *TemplateData
	B *Document
}

func zzhDocTexts(d *Document) []string {
	var out []string
	for _, p := range d.Body.GetParagraphs() {
		s := ""
		for _, r := range p.Runs {
			s += r.Text.Content
		}
		out = append(out, s)
	}
	return out
}

func zzhSameStrings(a, b []string) bool {
	if len(a) != len(b) {
		return false
	}
	ok := true
	for i := range a {
		ok = zzvAnd(ok, a[i] == b[i])
	}
	return ok
}

// Rendering writes neither into the template nor into the data (every store into an object
// reachable from them is a violation), and rendering twice gives the same text and document.
func ZZH_C17_RenderIsPure() {
	k := zzvChoice(len(zzhSkeletons))
	d := zzhPickTplData(zzhSkeletons[k])
	td := d.toTemplateData()
	te := NewTemplateEngine()
	tpl, err := te.LoadTemplate("t", zzhSkeletons[k])
	zzvAssume(err == nil && tpl != nil)
	zzvFreeze(&zzhFrozenRender{T: tpl, D: td}, "template and data during rendering")
	first, err := te.renderTemplate(tpl, td)
	zzvAssert(err == nil, "rendering succeeds")
	doc1, err := te.RenderToDocument("t", td)
	zzvAssert(err == nil && doc1 != nil, "rendering to a document succeeds")
	zzvUnfreeze()
	second, err := te.renderTemplate(tpl, td)
	zzvAssert(err == nil && first == second, "repeat: rendering the same template with the same data again gives the same text")
	doc2, err := te.RenderToDocument("t", td)
	zzvAssert(err == nil && doc2 != nil, "rendering to a document succeeds again")
	if doc1 != nil && doc2 != nil {
		zzvAssert(zzhSameStrings(zzhDocTexts(doc1), zzhDocTexts(doc2)), "repeat: rendering to a document twice gives the same paragraphs")
		zzvAssertDisjoint(interface{}(doc1), interface{}(doc2), "two renderings")
	}
	zzvReach("pure")
}

const zzhBaseTpl = "H[{{#block \"title\"}}default {{name}}{{/block}}]M[{{#block \"body\"}}base body{{/block}}]F"

// What a template renders does not depend on the other templates that were loaded, rendered or
// removed in between.
func ZZH_C17_RepeatableAcrossEngineCalls() {
	name := zzhValue(2)
	td := NewTemplateData()
	td.SetVariable("name", name)
	te := NewTemplateEngine()
	_, err := te.LoadTemplate("base", zzhBaseTpl)
	zzvAssume(err == nil)
	_, err = te.LoadTemplate("derived", "{{extends \"base\"}}")
	zzvAssume(err == nil)
	target := []string{"base", "derived"}[zzvChoice(2)]
	tpl, err := te.GetTemplate(target)
	zzvAssume(err == nil && tpl != nil)
	before, err := te.renderTemplate(tpl, td)
	zzvAssert(err == nil, "rendering succeeds")
	n := zzvBound("engine_calls_between", 1, 2)
	for i := 0; i < n; i++ {
		switch zzvChoice(7) {
		case 0:
			_, e := te.LoadTemplate("other", "unrelated {{name}}")
			zzvAssume(e == nil)
		case 1:
			// a sibling that overrides a block of the shared base: listed known finding
			zzvKnown("KF-C17-block-override-mutates-parent", "repeat across engine calls:")
			_, e := te.LoadTemplate("sibling", "{{extends \"base\"}}{{#block \"title\"}}sibling title{{/block}}")
			zzvAssume(e == nil)
		case 2:
			// another template is registered under the base's name; templates loaded earlier keep
			// the base they were bound to
			_, e := te.LoadTemplate("base", "REPLACED {{name}}")
			zzvAssume(e == nil)
		case 3:
			te.RemoveTemplate([]string{"base", "derived", "other"}[zzvChoice(3)])
		case 4:
			te.ClearCache()
		case 5:
			if o, e := te.GetTemplate("derived"); e == nil {
				te.renderTemplate(o, td)
			}
		case 6:
			od := NewTemplateData()
			od.SetVariable("name", zzhValue(1))
			te.renderTemplate(tpl, od)
		}
	}
	after, err := te.renderTemplate(tpl, td)
	zzvAssert(err == nil, "rendering succeeds afterwards")
	zzvAssert(before == after, "repeat across engine calls: the same template with the same data renders the same text whatever was loaded, rendered or removed in between")
	zzvReach("repeatable")
}

// Rendering a document template leaves its base document untouched and yields independent
// documents.
func ZZH_C17_BaseDocumentUntouched() {
	base := New()
	base.AddParagraph("Dear {{name}},")
	base.AddParagraph("plain")
	// a header part as an opened package carries it (concrete XML text)
	base.parts["word/header1.xml"] = []byte(`<?xml version="1.0" encoding="UTF-8"?><w:hdr xmlns:w="` + zzhNSMain + `"><w:p><w:r><w:t>Dept {{dept}}</w:t></w:r></w:p></w:hdr>`)
	// a table whose middle row is a row loop; the list is empty, never supplied, or holds an item
	zzhLoopTable(base)
	te := NewTemplateEngine()
	tpl, err := te.LoadTemplateFromDocument("doc", base)
	zzvAssume(err == nil && tpl != nil)
	td := NewTemplateData()
	switch zzvChoice(3) {
	case 1:
		td.SetList("items", []interface{}{})
	case 2:
		td.SetList("items", []interface{}{map[string]interface{}{"iname": zzhValue(1), "qty": "q"}})
	}
	if zzvBool() {
		td.SetVariable("name", zzhValue(2))
	}
	if zzvBool() {
		td.SetVariable("dept", zzhValue(2))
	}
	zzvFreeze(&zzhFrozenRender{T: tpl, D: td, B: base}, "template, data and base document during rendering")
	r1, err := te.RenderTemplateToDocument("doc", td)
	zzvAssert(err == nil && r1 != nil, "rendering a document template succeeds")
	zzvUnfreeze()
	r2, err := te.RenderTemplateToDocument("doc", td)
	zzvAssert(err == nil && r2 != nil, "rendering a document template succeeds again")
	if r1 != nil && r2 != nil {
		zzvAssert(zzhSameStrings(zzhDocTexts(r1), zzhDocTexts(r2)), "repeat: rendering a document template twice gives the same paragraphs")
		zzvAssertDisjoint(interface{}(r1), interface{}(base), "rendering and base document")
		zzvAssertDisjoint(interface{}(r1), interface{}(r2), "two renderings")
	}
	zzvReach("base-untouched")
}
