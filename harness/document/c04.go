package document

import "bytes"

// C04: opening and re-saving an existing package is non-destructive.

const zzhRelHyperlink = "http://schemas.openxmlformats.org/officeDocument/2006/relationships/hyperlink"

type zzhForeign struct {
	name, ctype string
	override    bool
}

var zzhForeignParts = []zzhForeign{
	{"word/theme/theme1.xml", "application/vnd.openxmlformats-officedocument.theme+xml", true},
	{"word/fontTable.xml", "application/vnd.openxmlformats-officedocument.wordprocessingml.fontTable+xml", true},
	{"customXml/item1.xml", "", false},
	{"word/stylesWithEffects.xml", "application/vnd.ms-word.stylesWithEffects+xml", true},
	{"word/embeddings/oleObject1.bin", "application/vnd.openxmlformats-officedocument.oleObject", false},
	{"word/header7.xml", "application/vnd.openxmlformats-officedocument.wordprocessingml.header+xml", true},
	{"word/_rels/header7.xml.rels", "", false},
	{"word/media/image2.png", "", false},
}

// zzhForeignPackage: a valid package as another producer writes it - solver-chosen extra parts
// with arbitrary contents, their content types, extra document relationships (an external
// hyperlink, a Microsoft-namespace styles relationship, a header with its own relationship part
// and media), body text partly carried by runs inside wrapper elements.
func zzhForeignPackage(body string) (names []string, parts map[string][]byte, docRels []zzhRel, extra []string) {
	ct := `<?xml version="1.0" encoding="UTF-8"?>` + "\n" + `<Types xmlns="http://schemas.openxmlformats.org/package/2006/content-types"><Default Extension="rels" ContentType="application/vnd.openxmlformats-package.relationships+xml"/><Default Extension="xml" ContentType="application/xml"/><Default Extension="png" ContentType="image/png"/><Default Extension="bin" ContentType="application/vnd.openxmlformats-officedocument.oleObject"/><Override PartName="/word/document.xml" ContentType="application/vnd.openxmlformats-officedocument.wordprocessingml.document.main+xml"/><Override PartName="/word/styles.xml" ContentType="application/vnd.openxmlformats-officedocument.wordprocessingml.styles+xml"/>`
	names = []string{"[Content_Types].xml", "_rels/.rels", "word/document.xml", "word/styles.xml", "word/_rels/document.xml.rels"}
	parts = map[string][]byte{"_rels/.rels": []byte(zzhTopRelsXML), "word/styles.xml": []byte(zzhStylesXML)}
	docRels = []zzhRel{{"rId1", "http://schemas.openxmlformats.org/officeDocument/2006/relationships/styles", "styles.xml", ""}}
	next := 2
	addRel := func(typ, target, mode string) {
		docRels = append(docRels, zzhRel{"rId" + zzvItoa(next), typ, target, mode})
		next++
	}
	for _, f := range zzhForeignParts {
		if !zzvBool() {
			continue
		}
		if f.name == "word/media/image2.png" {
			// media referenced from a header's own relationship part only, under any numbering
			f.name = "word/media/" + []string{"image0.png", "image1.png", "image2.png", "logo.png"}[zzvChoice(4)]
		}
		names = append(names, f.name)
		parts[f.name] = []byte(zzvString())
		extra = append(extra, f.name)
		if f.override {
			ct += `<Override PartName="/` + f.name + `" ContentType="` + f.ctype + `"/>`
		}
		switch f.name {
		case "word/theme/theme1.xml":
			addRel("http://schemas.openxmlformats.org/officeDocument/2006/relationships/theme", "theme/theme1.xml", "")
		case "word/stylesWithEffects.xml":
			addRel("http://schemas.microsoft.com/office/2007/relationships/stylesWithEffects", "stylesWithEffects.xml", "")
		case "word/header7.xml":
			addRel(zzhRelHeader, "header7.xml", "")
		case "word/media/image2.png":
			// referenced from the header's own relationship part only
		}
	}
	if zzvBool() {
		addRel(zzhRelHyperlink, "https://example.org/a?b=c", "External")
		if zzvBool() {
			// a second relationship of the same type to the same target (two links to one address)
			addRel(zzhRelHyperlink, "https://example.org/a?b=c", "External")
		}
	}
	ct += `</Types>`
	parts["[Content_Types].xml"] = []byte(ct)
	rels := `<?xml version="1.0" encoding="UTF-8"?>` + "\n" + `<Relationships xmlns="` + zzhNSRel + `">`
	for _, r := range docRels {
		rels += `<Relationship Id="` + r.id + `" Type="` + r.typ + `" Target="` + r.target + `"`
		if r.mode != "" {
			rels += ` TargetMode="` + r.mode + `"`
		}
		rels += `/>`
	}
	rels += `</Relationships>`
	parts["word/_rels/document.xml.rels"] = []byte(rels)
	parts["word/document.xml"] = []byte(zzhDocXML(body))
	return
}

func zzhRelIn(list []zzhRel, want zzhRel, withMode bool) bool {
	for _, r := range list {
		if r.id == want.id && r.typ == want.typ && r.target == want.target && (!withMode || r.mode == want.mode) {
			return true
		}
	}
	return false
}

func ZZH_C04_ForeignPackage() {
	names, parts, docRels, extra := zzhForeignPackage(`<w:p><w:r><w:t>plain</w:t></w:r></w:p>`)
	d, err := zzhOpen(names, parts)
	zzvAssert(err == nil && d != nil, "a valid foreign package opens")
	if d == nil {
		return
	}
	switch zzvChoice(4) {
	case 0:
	case 1:
		d.AddParagraph(zzvString())
	case 2:
		// a new picture whose name may claim another format than its data has
		_, e := d.AddImageFromData([]byte(zzvString()), []string{"new.png", "scan.bin", "x.xml"}[zzvChoice(3)], zzhFormats[zzvChoice(3)], 1, 1, nil)
		zzvAssume(e == nil)
	case 3:
		zzvAssume(d.AddHeader(HeaderFooterTypeDefault, zzvString()) == nil)
	}
	data, err := d.ToBytes()
	zzvAssert(err == nil, "ToBytes succeeds")
	pkg, ok := zzhReadZipBytes(data)
	zzvAssert(ok, "the re-saved package is a readable archive")
	// parts the library does not regenerate come back byte for byte under the same name
	for _, n := range append(extra, "word/styles.xml") {
		got, present := pkg[n]
		zzvAssert(present, "every part that is not regenerated is written back under its name")
		if present {
			zzvAssert(bytes.Equal(got, parts[n]), "every part that is not regenerated is written back byte for byte")
		}
	}
	// content types survive
	es, ok := zzhParse(pkg["[Content_Types].xml"])
	zzvAssert(ok, "the content-types part decodes")
	src, _ := zzhParse(parts["[Content_Types].xml"])
	for _, s := range src {
		if s.Name != "Default" && s.Name != "Override" {
			continue
		}
		found := false
		for _, e := range es {
			if e.Name == s.Name && e.Attr("Extension") == s.Attr("Extension") && e.Attr("PartName") == s.Attr("PartName") && e.Attr("ContentType") == s.Attr("ContentType") {
				found = true
			}
		}
		zzvAssert(found, "every content-type entry of the opened package survives")
	}
	// relationships keep id, type, target and mode
	got, ok := zzhRels(pkg["word/_rels/document.xml.rels"])
	zzvAssert(ok, "the document relationship part decodes")
	for _, r := range docRels {
		zzvAssert(zzhRelIn(got, r, false), "every document relationship keeps its id, type and target")
		if r.mode != "" {
			zzvKnown("KF-C04-targetmode-lost", "every external relationship keeps its external mode")
			zzvAssert(zzhRelIn(got, r, true), "every external relationship keeps its external mode")
			zzvKnownEnd("KF-C04-targetmode-lost")
		}
	}
	top, ok := zzhRels(pkg["_rels/.rels"])
	zzvAssert(ok && zzhRelIn(top, zzhRel{"rId1", zzhRelOfficeDoc, "word/document.xml", ""}, false), "the package relationship keeps its id, type and target")
	zzvReach("resaved")
}

var zzhWrappers = []string{"hyperlink", "smartTag", "ins", "sdt", "fldSimple", "customXml", "textbox-in-run"}

// Body text carried by runs survives open + save, wherever the runs sit.
func ZZH_C04_RunText() {
	w := zzhWrappers[zzvChoice(len(zzhWrappers))]
	inner := `<w:r><w:t>inner</w:t></w:r>`
	wrapped := `<w:` + w + `>` + inner + `</w:` + w + `>`
	if w == "sdt" {
		wrapped = `<w:sdt><w:sdtContent>` + inner + `</w:sdtContent></w:sdt>`
	}
	if w == "textbox-in-run" {
		// a text box anchored in a run: paragraphs and runs nested inside an (unknown) child of w:r
		wrapped = `<w:r><w:pict><w:txbxContent><w:p><w:r><w:t>inner</w:t></w:r></w:p></w:txbxContent></w:pict></w:r>`
	}
	body := `<w:p><w:r><w:t>before </w:t></w:r>` + wrapped + `<w:r><w:t> after</w:t></w:r></w:p>`
	names, parts, _, _ := zzhForeignPackage(body)
	d, err := zzhOpen(names, parts)
	zzvAssert(err == nil && d != nil, "a valid foreign package opens")
	if d == nil {
		return
	}
	data, err := d.ToBytes()
	zzvAssert(err == nil, "ToBytes succeeds")
	pkg, _ := zzhReadZipBytes(data)
	flat, ok := zzhFlatten(pkg["word/document.xml"])
	zzvAssert(ok, "the re-saved main part decodes")
	zzvAssert(zzhHas(flat, "#before ") && zzhHas(flat, "# after"), "text of runs directly in a paragraph survives open and save")
	zzvKnown("KF-C04-nested-run-text-lost", "text of runs nested in")
	zzvAssert(zzhHas(flat, "#inner"), "text of runs nested in a hyperlink, smart tag, tracked insertion, content control or field survives open and save")
	zzvKnownEnd("KF-C04-nested-run-text-lost")
	zzvReach("resaved")
}
