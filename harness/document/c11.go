package document

import (
	"bytes"
	"io"
)

// C11: each header/footer kind has exactly one, current, resolvable definition.

const zzhRelHeader = "http://schemas.openxmlformats.org/officeDocument/2006/relationships/header"
const zzhRelFooter = "http://schemas.openxmlformats.org/officeDocument/2006/relationships/footer"

var zzhKinds = []HeaderFooterType{HeaderFooterTypeDefault, HeaderFooterTypeFirst, HeaderFooterTypeEven}

type zzhHFCall struct {
	footer  bool
	kind    HeaderFooterType
	text    string
	pageNum bool
	bold    bool
	formatted bool
}

// zzhHFCallAny performs one solver-chosen header/footer call and describes it.
func zzhHFCallAny(d *Document, shared *TextFormat) zzhHFCall {
	c := zzhHFCall{kind: zzhKinds[zzvChoice(3)], text: zzvString()}
	var err error
	switch zzvChoice(6) {
	case 0:
		err = d.AddHeader(c.kind, c.text)
	case 1:
		c.footer = true
		err = d.AddFooter(c.kind, c.text)
	case 2:
		c.pageNum = zzvBool()
		err = d.AddHeaderWithPageNumber(c.kind, c.text, c.pageNum)
	case 3:
		c.footer, c.pageNum = true, zzvBool()
		err = d.AddFooterWithPageNumber(c.kind, c.text, c.pageNum)
	case 4:
		// the caller's format object is reused for every formatted call of the run
		c.formatted, c.bold = true, shared.Bold
		err = d.AddFormattedHeader(c.kind, &HeaderFooterConfig{Text: c.text, Format: shared, Alignment: AlignCenter})
	case 5:
		c.footer, c.formatted, c.bold = true, true, shared.Bold
		err = d.AddFormattedFooter(c.kind, &HeaderFooterConfig{Text: c.text, Format: shared, Alignment: AlignCenter})
	}
	zzvAssert(err == nil, "header/footer call succeeds")
	zzvAssert(shared.FontSize == 11 && shared.FontColor == "336699" && shared.FontFamily == "Arial", "a header/footer call leaves the caller's format object as it was")
	return c
}

// zzhCheckRefs: at most one reference per kind; every reference resolves to a relationship of
// the matching type whose target part exists. Returns the part name per (footer, kind).
func zzhCheckRefs(d *Document) map[string]string {
	parts := map[string]string{}
	sp := d.getSectionProperties()
	for _, k := range zzhKinds {
		n := 0
		for _, r := range sp.HeaderReferences {
			if r.Type == string(k) {
				n++
			}
		}
		zzvAssert(n <= 1, "at most one header reference per kind")
		n = 0
		for _, r := range sp.FooterReferences {
			if r.Type == string(k) {
				n++
			}
		}
		zzvAssert(n <= 1, "at most one footer reference per kind")
	}
	resolve := func(id, relType string) string {
		hits, target := 0, ""
		for _, rel := range d.documentRelationships.Relationships {
			if rel.ID == id {
				hits++
				if rel.Type == relType {
					target = rel.Target
				}
			}
		}
		zzvAssert(hits == 1, "a reference id names exactly one document relationship")
		zzvAssert(target != "", "the referenced relationship has the matching header/footer type")
		_, present := d.parts["word/"+target]
		zzvAssert(present, "the referenced relationship targets a part that is present")
		return "word/" + target
	}
	for _, r := range sp.HeaderReferences {
		parts["h:"+r.Type] = resolve(r.ID, zzhRelHeader)
	}
	for _, r := range sp.FooterReferences {
		parts["f:"+r.Type] = resolve(r.ID, zzhRelFooter)
	}
	return parts
}

func zzhHFKey(c zzhHFCall) string {
	if c.footer {
		return "f:" + string(c.kind)
	}
	return "h:" + string(c.kind)
}

// zzhCheckContent: the part referenced for the call's kind carries the call's content.
func zzhCheckContent(d *Document, parts map[string]string, c zzhHFCall) {
	name, ok := parts[zzhHFKey(c)]
	zzvAssert(ok, "the kind of the most recent call is referenced by the section settings")
	if !ok {
		return
	}
	flat, dec := zzhFlatten(d.parts[name])
	zzvAssert(dec, "the header/footer part decodes")
	root := "<hdr"
	if c.footer {
		root = "<ftr"
	}
	zzvAssert(len(flat) > 0 && flat[0] == root, "the part is a header (footer) part")
	zzvAssert(zzvOr(c.text == "", zzhHas(flat, "#"+c.text)), "the part carries the text of the most recent call for its kind")
	fld := zzhCount(flat, "<fldChar fldCharType=begin")
	if c.pageNum {
		zzvAssert(fld == 1 && zzhHas(flat, "# PAGE  \\* MERGEFORMAT "), "the part carries the page-number field of the most recent call")
	} else {
		zzvAssert(fld == 0, "no page-number field unless the most recent call asked for one")
	}
	if c.formatted {
		zzvAssert(zzhHas(flat, "<jc val=center"), "the part carries the alignment of the most recent call")
		zzvAssert(zzvOr(c.text == "", (zzhCount(flat, "<b") == 1) == c.bold), "the part carries the bold setting of the most recent call")
		zzvAssert(zzvOr(c.text == "", zzvAnd(zzhHas(flat, "<sz val=22"), zzhHas(flat, "<color val=336699"))), "the part carries the font size and colour of the most recent call")
	} else {
		zzvAssert(zzhCount(flat, "<b") == 0, "no formatting unless the most recent call asked for it")
	}
	// exactly one paragraph: earlier definitions no longer take effect
	zzvAssert(zzhCount(flat, "<p") == 1, "the part holds the definition of one call only")
}

// k earlier calls (solver-chosen entry points and kinds, so "the same kind again" is a solver
// choice), then the invariants after every call.
func ZZH_C11_Calls() {
	d := New()
	k := zzvBound("hf_calls", 2, 3)
	last := map[string]zzhHFCall{}
	shared := &TextFormat{Bold: zzvBool(), FontSize: 11, FontColor: "336699", FontFamily: "Arial"}
	for i := 0; i < k; i++ {
		if i == 1 && zzvBool() {
			// interleaved page-setting / first-page calls must not disturb the references
			d.SetDifferentFirstPage(zzvBool())
			zzvAssume(d.SetPageMargins(20, 20, 20, 20) == nil)
		}
		c := zzhHFCallAny(d, shared)
		last[zzhHFKey(c)] = c
		parts := zzhCheckRefs(d)
		zzhCheckContent(d, parts, c)
		if i == k-1 {
			// every kind defined so far still resolves to its latest definition
			for _, lc := range last {
				zzhCheckContent(d, parts, lc)
			}
		}
	}
	zzvReach("done")
}

// Longer histories of the plain entry points (solver-chosen header/footer and kind per call):
// after every call the references are one per kind and each resolves to exactly one
// relationship of the right type whose part exists - in particular after a kind was redefined
// and another relationship was created afterwards.
func ZZH_C11_RefsAfterRedefinition() {
	d := New()
	k := zzvBound("hf_plain_calls", 3, 4)
	for i := 0; i < k; i++ {
		kind := zzhKinds[zzvChoice(3)]
		var err error
		if zzvBool() {
			err = d.AddHeader(kind, "t")
		} else {
			err = d.AddFooter(kind, "t")
		}
		zzvAssert(err == nil, "header/footer call succeeds")
		if i < 2 {
			// other calls in between: a picture (a relationship), body content after the section
			// settings, page settings
			switch zzvChoice(4) {
			case 1:
				_, e := d.AddImageFromData(zzhPNG, "p.png", ImageFormatPNG, 10, 10, nil)
				zzvAssume(e == nil)
			case 2:
				d.AddParagraph("body text")
			case 3:
				zzvAssume(d.SetPageMargins(20, 20, 20, 20) == nil)
			}
		}
		zzhCheckRefs(d)
		nSect := 0
		for _, e := range d.Body.Elements {
			if _, is := e.(*SectionProperties); is {
				nSect++
			}
		}
		zzvAssert(nSect == 1, "the body holds one section-settings element carrying all definitions")
	}
	// the saved package resolves the references as well
	data, err := d.ToBytes()
	zzvAssert(err == nil, "ToBytes succeeds")
	pkg, ok := zzhReadZipBytes(data)
	zzvAssert(ok, "the package is a readable archive")
	zzhCheckPackageRels(pkg)
	es, _ := zzhParse(pkg["word/document.xml"])
	for _, kind := range zzhKinds {
		hn, fn := 0, 0
		for _, e := range es {
			if e.Name == "headerReference" && e.Attr("type") == string(kind) {
				hn++
			}
			if e.Name == "footerReference" && e.Attr("type") == string(kind) {
				fn++
			}
		}
		zzvAssert(hn <= 1 && fn <= 1, "the saved section settings reference at most one header and one footer per kind")
	}
	sp := d.getSectionProperties()
	for _, r := range sp.HeaderReferences {
		found := false
		for _, e := range es {
			if e.Name == "headerReference" && e.Attr("type") == r.Type && e.Attr("id") == r.ID {
				found = true
			}
		}
		zzvAssert(found, "every header definition is written to the saved section settings")
	}
	for _, r := range sp.FooterReferences {
		found := false
		for _, e := range es {
			if e.Name == "footerReference" && e.Attr("type") == r.Type && e.Attr("id") == r.ID {
				found = true
			}
		}
		zzvAssert(found, "every footer definition is written to the saved section settings")
	}
	// the definitions survive reopening: the reopened document references the same kinds through
	// the same relationship ids, one per kind, each resolving to its part
	d2, err := OpenFromMemory(io.NopCloser(bytes.NewReader(data)))
	zzvAssert(err == nil && d2 != nil, "the saved package opens")
	if d2 != nil {
		ra, rb := zzhSectionRefs(d), zzhSectionRefs(d2)
		zzvAssert(len(ra) == len(rb), "every header/footer definition survives reopening")
		if len(ra) == len(rb) {
			for i := range ra {
				zzvAssert(ra[i] == rb[i], "every header/footer definition survives reopening")
			}
		}
		zzhCheckRefs(d2)
	}
	// relationship ids stay unique in the document relationship list
	rels := d.documentRelationships.Relationships
	for i := range rels {
		for j := i + 1; j < len(rels); j++ {
			zzvAssert(rels[i].ID != rels[j].ID, "document relationship ids stay pairwise distinct")
		}
	}
	zzvReach("done")
}
