package document

// C12: page-setting calls change only what they name; settings read back as set.

const zzhTwip = 0.0177   // one twentieth of a point in mm (0.017639), rounded up
const zzhSnap = 1.0 + 0.02 // documented recognition tolerance plus one twip

var zzhSizes = []PageSize{PageSizeA4, PageSizeLetter, PageSizeLegal, PageSizeA3, PageSizeA5, PageSizeCustom}

func zzhOrient() PageOrientation {
	switch zzvChoice(3) {
	case 0:
		return OrientationPortrait
	case 1:
		return OrientationLandscape
	}
	return PageOrientation("sideways")
}

func zzhGrid() DocGridType {
	switch zzvChoice(4) {
	case 0:
		return DocGridType("")
	case 1:
		return DocGridLines
	case 2:
		return DocGridSnapToChars
	}
	return DocGridDefault
}

// zzhSettings: an arbitrary settings record (valid or not).
func zzhSettings() *PageSettings {
	s := &PageSettings{}
	s.Size = zzhSizes[zzvChoice(len(zzhSizes))]
	if s.Size == PageSizeCustom {
		s.CustomWidth = zzvFloatIn(-100, 1000)
		s.CustomHeight = zzvFloatIn(-100, 1000)
	}
	s.Orientation = zzhOrient()
	s.MarginTop = zzvFloatIn(0, 600)
	s.MarginRight = zzvFloatIn(0, 600)
	s.MarginBottom = zzvFloatIn(0, 600)
	s.MarginLeft = zzvFloatIn(0, 600)
	s.HeaderDistance = zzvFloatIn(0, 600)
	s.FooterDistance = zzvFloatIn(0, 600)
	s.GutterWidth = zzvFloatIn(0, 600)
	s.DocGridType = zzhGrid()
	s.DocGridLinePitch = zzvIntIn(0, 31680)
	s.DocGridCharSpace = zzvIntIn(0, 31680)
	return s
}

// zzhSettingsLite: a valid earlier configuration (what the next full call does not overwrite is the grid only).
func zzhSettingsLite() *PageSettings {
	s := DefaultPageSettings()
	if zzvBool() {
		// the outermost half twip of the valid range is the region of KF-C12-custom-bound (own harness below)
		s.Size = PageSizeCustom
		s.CustomWidth = zzvFloatIn(12.71, 558.79)
		s.CustomHeight = zzvFloatIn(12.71, 558.79)
	}
	if zzvBool() {
		s.Orientation = OrientationLandscape
	}
	s.MarginTop = zzvFloatIn(0, 600)
	s.MarginLeft = zzvFloatIn(0, 600)
	s.HeaderDistance = zzvFloatIn(0, 600)
	s.GutterWidth = zzvFloatIn(0, 600)
	if zzvBool() {
		s.DocGridType = ""
	} else {
		s.DocGridLinePitch = zzvIntIn(0, 31680)
		s.DocGridCharSpace = zzvIntIn(0, 31680)
	}
	return s
}

// zzhLogicalOf: like zzhLogical for a possibly symbolic size name (no map lookup by symbolic key).
func zzhLogicalOf(s *PageSettings) (float64, float64) {
	w, h := predefinedSizes[PageSizeA4].width, predefinedSizes[PageSizeA4].height
	for _, sz := range zzhSizes[:5] {
		d := predefinedSizes[sz]
		w = zzvIteFloat(s.Size == sz, d.width, w)
		h = zzvIteFloat(s.Size == sz, d.height, h)
	}
	w = zzvIteFloat(s.Size == PageSizeCustom, s.CustomWidth, w)
	h = zzvIteFloat(s.Size == PageSizeCustom, s.CustomHeight, h)
	return w, h
}

// zzhValid: the documented validity predicate of a settings record.
func zzhValid(s *PageSettings) bool {
	ok := zzvOr(s.Orientation == OrientationPortrait, s.Orientation == OrientationLandscape)
	if s.Size == PageSizeCustom {
		ok = zzvAnd(ok, zzvAnd(zzvAnd(s.CustomWidth >= 12.7, s.CustomWidth <= 558.8), zzvAnd(s.CustomHeight >= 12.7, s.CustomHeight <= 558.8)))
	}
	return ok
}

// zzhLogical: the logical (orientation-independent) page width/height a record asks for.
func zzhLogical(s *PageSettings) (float64, float64) {
	if s.Size == PageSizeCustom {
		return s.CustomWidth, s.CustomHeight
	}
	dims, ok := predefinedSizes[s.Size]
	if !ok {
		dims = predefinedSizes[PageSizeA4]
	}
	return dims.width, dims.height
}

// zzhNearStandard: (w,h) lies within the recognition tolerance of a predefined size (in either
// reading direction); such a size may legitimately be reported as, and snapped to, that standard.
// The boundary of the tolerance is blurred by the half-twip rounding of the stored value.
func zzhNearStandard(w, h float64) bool {
	near := false
	for _, sz := range zzhSizes[:5] {
		d := predefinedSizes[sz]
		near = zzvOr(near, zzvAnd(zzvAbsLE(w, d.width, 1.009), zzvAbsLE(h, d.height, 1.009)))
	}
	return near
}

type zzhSnapshot struct {
	w, h                float64 // physical twips
	orient              string
	top, right, bottom  float64
	left, header, foot  float64
	gutter              float64
	hasGrid             bool
	gridType            string
	pitch, charSpace    float64
	hasCharSpace        bool
	fresh               bool // no page size stored yet
}

func zzhSnap12(d *Document) zzhSnapshot {
	var s zzhSnapshot
	sp := d.getSectionProperties()
	// a never-configured document has the documented defaults (A4 portrait, 25.4 mm margins, 12.7 mm distances)
	s.w, s.h, s.orient = 11906, 16838, "portrait"
	s.top, s.right, s.bottom, s.left, s.header, s.foot, s.gutter = 1440, 1440, 1440, 1440, 720, 720, 0
	s.fresh = sp.PageSize == nil
	if sp.PageSize != nil {
		s.w, s.h, s.orient = parseFloat(sp.PageSize.W), parseFloat(sp.PageSize.H), sp.PageSize.Orient
	}
	if m := sp.PageMargins; m != nil {
		s.top, s.right, s.bottom, s.left = parseFloat(m.Top), parseFloat(m.Right), parseFloat(m.Bottom), parseFloat(m.Left)
		s.header, s.foot, s.gutter = parseFloat(m.Header), parseFloat(m.Footer), parseFloat(m.Gutter)
	}
	if g := sp.DocGrid; g != nil {
		s.hasGrid, s.gridType, s.pitch = true, g.Type, parseFloat(g.LinePitch)
		if g.CharSpace != "" {
			s.hasCharSpace, s.charSpace = true, parseFloat(g.CharSpace)
		}
	}
	return s
}

func zzhSameMargins(a, b zzhSnapshot) bool {
	return zzvAnd(zzvAnd(zzvAnd(a.top == b.top, a.right == b.right), zzvAnd(a.bottom == b.bottom, a.left == b.left)),
		zzvAnd(zzvAnd(a.header == b.header, a.foot == b.foot), a.gutter == b.gutter))
}

func zzhSameGrid(a, b zzhSnapshot) bool {
	if a.hasGrid != b.hasGrid {
		return false
	}
	if !a.hasGrid {
		return true
	}
	if a.hasCharSpace != b.hasCharSpace {
		return false
	}
	return zzvAnd(a.gridType == b.gridType, zzvAnd(a.pitch == b.pitch, a.charSpace == b.charSpace))
}

func zzhSameAll(a, b zzhSnapshot) bool {
	return zzvAnd(zzvAnd(a.w == b.w, a.h == b.h), zzvAnd(a.orient == b.orient, zzvAnd(zzhSameMargins(a, b), zzhSameGrid(a, b))))
}

const zzhSnapTw = 58.0 // 1 mm + rounding, in twips

// ---- H1: SetPageSettings(S) then GetPageSettings reads S back; invalid S is rejected ----
func ZZH_C12_SetGet() {
	d := New()
	// arbitrary earlier state: optionally one valid earlier call
	if zzvBool() {
		zzvAssume(d.SetPageSettings(zzhSettingsLite()) == nil)
	}
	before := zzhSnap12(d)
	s := zzhSettings()
	err := d.SetPageSettings(s)
	if !zzhValid(s) {
		zzvAssert(err != nil, "SetPageSettings: invalid request is rejected")
		zzvAssert(zzhSameAll(before, zzhSnap12(d)), "SetPageSettings: a rejected request changes nothing")
		zzvReach("rejected")
		return
	}
	zzvAssert(err == nil, "SetPageSettings: valid request accepted")
	g := d.GetPageSettings()
	zzvAssert(g.Orientation == s.Orientation, "read-back: orientation as set")
	zzvAssert(zzvAbsLE(g.MarginTop, s.MarginTop, zzhTwip), "read-back: top margin within one twip")
	zzvAssert(zzvAbsLE(g.MarginRight, s.MarginRight, zzhTwip), "read-back: right margin within one twip")
	zzvAssert(zzvAbsLE(g.MarginBottom, s.MarginBottom, zzhTwip), "read-back: bottom margin within one twip")
	zzvAssert(zzvAbsLE(g.MarginLeft, s.MarginLeft, zzhTwip), "read-back: left margin within one twip")
	zzvAssert(zzvAbsLE(g.HeaderDistance, s.HeaderDistance, zzhTwip), "read-back: header distance within one twip")
	zzvAssert(zzvAbsLE(g.FooterDistance, s.FooterDistance, zzhTwip), "read-back: footer distance within one twip")
	zzvAssert(zzvAbsLE(g.GutterWidth, s.GutterWidth, zzhTwip), "read-back: gutter within one twip")
	lw, lh := zzhLogical(s)
	if s.Size != PageSizeCustom {
		zzvAssert(g.Size == s.Size, "read-back: predefined size name as set")
	} else {
		// within the documented tolerance a size may be reported as that standard size, otherwise as custom
		near := zzhNearStandard(lw, lh)
		zzvAssert(zzvOr(near, g.Size == PageSizeCustom), "read-back: a custom size not near a standard size is reported as custom")
		gw, gh := zzhLogicalOf(g)
		zzvAssert(zzvOr(g.Size == PageSizeCustom, zzvAnd(zzvAbsLE(gw, lw, zzhSnap), zzvAbsLE(gh, lh, zzhSnap))),
			"read-back: a size reported as standard is within 1 mm of the size set (same reading direction)")
		zzvAssert(zzvOr(g.Size != PageSizeCustom, zzvAnd(zzvAbsLE(g.CustomWidth, lw, zzhTwip), zzvAbsLE(g.CustomHeight, lh, zzhTwip))),
			"read-back: custom size within one twip")
		zzvReach("custom")
	}
	if s.DocGridType != "" {
		zzvAssert(g.DocGridType == s.DocGridType && g.DocGridLinePitch == s.DocGridLinePitch, "read-back: grid type and line pitch as set")
		zzvAssert(g.DocGridCharSpace == s.DocGridCharSpace, "read-back: grid char space as set")
	}
	// physical page: width/height follow orientation
	after := zzhSnap12(d)
	pw, ph := lw, lh
	if s.Orientation == OrientationLandscape {
		pw, ph = lh, lw
	}
	zzvAssert(zzvAnd(zzvAbsLE(after.w, pw*56.692913385827, 0.51), zzvAbsLE(after.h, ph*56.692913385827, 0.51)),
		"stored page: physical width/height are the logical size, swapped exactly when landscape")
	zzvReach("accepted")
}

// ---- H2: each dedicated setter changes only what it names ----
func zzhState12() *Document {
	d := New()
	if zzvBool() {
		return d // never configured
	}
	zzvAssume(d.SetPageSettings(zzhSettingsLite()) == nil)
	return d
}

// zzhSizeKept: physical page unchanged, or moved by the documented snap to a standard size.
func zzhSizeKept(a, b zzhSnapshot) bool {
	exact := zzvAnd(a.w == b.w, a.h == b.h)
	lw, lh := a.w/56.692913385827, a.h/56.692913385827
	if a.orient == "landscape" {
		lw, lh = lh, lw
	}
	near := zzvAnd(zzhNearStandard(lw, lh), zzvAnd(zzvAbsLE(a.w, b.w, zzhSnapTw), zzvAbsLE(a.h, b.h, zzhSnapTw)))
	return zzvOr(exact, near)
}

func zzhGridKept(a, b zzhSnapshot) bool {
	if !a.hasGrid {
		// KF: a cleared/absent grid is re-created with the defaults by every read-modify-write setter
		return zzvOr(!b.hasGrid, true)
	}
	return zzhSameGrid(a, b)
}

func ZZH_C12_SetMargins() {
	d := zzhState12()
	a := zzhSnap12(d)
	t, r, b, l := zzvFloatIn(-100, 600), zzvFloatIn(-100, 600), zzvFloatIn(-100, 600), zzvFloatIn(-100, 600)
	err := d.SetPageMargins(t, r, b, l)
	c := zzhSnap12(d)
	if zzvOr(zzvOr(t < 0, r < 0), zzvOr(b < 0, l < 0)) {
		zzvAssert(err != nil, "SetPageMargins: negative margin rejected")
		zzvAssert(zzhSameAll(a, c), "SetPageMargins: a rejected request changes nothing")
		zzvReach("rejected")
		return
	}
	zzvAssert(err == nil, "SetPageMargins: valid request accepted")
	zzvAssert(zzhSizeKept(a, c), "SetPageMargins: never alters the page size")
	zzvAssert(c.orient == a.orient, "SetPageMargins: never alters the orientation")
	g := d.GetPageSettings()
	zzvAssert(zzvAnd(zzvAnd(zzvAbsLE(g.MarginTop, t, zzhTwip), zzvAbsLE(g.MarginRight, r, zzhTwip)), zzvAnd(zzvAbsLE(g.MarginBottom, b, zzhTwip), zzvAbsLE(g.MarginLeft, l, zzhTwip))),
		"SetPageMargins: margins read back as set")
	if !a.fresh || true {
		zzvAssert(zzvAnd(zzvAnd(c.header == a.header, c.foot == a.foot), c.gutter == a.gutter), "SetPageMargins: header/footer distance and gutter untouched")
	}
	if a.hasGrid {
		zzvAssert(zzhSameGrid(a, c), "SetPageMargins: grid untouched")
	}
	zzvReach("accepted")
}

func ZZH_C12_SetOrientation() {
	d := zzhState12()
	a := zzhSnap12(d)
	o := zzhOrient()
	err := d.SetPageOrientation(o)
	c := zzhSnap12(d)
	if o != OrientationPortrait && o != OrientationLandscape {
		zzvAssert(err != nil, "SetPageOrientation: unknown orientation rejected")
		zzvAssert(zzhSameAll(a, c), "SetPageOrientation: a rejected request changes nothing")
		zzvReach("rejected")
		return
	}
	zzvAssert(err == nil, "SetPageOrientation: valid request accepted")
	zzvAssert(c.orient == string(o), "SetPageOrientation: orientation stored")
	prev := a.orient
	if prev != "landscape" {
		prev = "portrait"
	}
	if prev == string(o) {
		zzvAssert(zzhSizeKept(a, c), "SetPageOrientation: same orientation leaves the physical page as it was")
		zzvReach("same")
	} else {
		sw := a
		sw.w, sw.h, sw.orient = a.h, a.w, string(o)
		zzvAssert(zzhSizeKept(sw, c), "SetPageOrientation: changing orientation swaps the physical dimensions exactly once")
		zzvReach("swapped")
	}
	zzvAssert(zzhSameMargins(a, c), "SetPageOrientation: margins untouched")
	if a.hasGrid {
		zzvAssert(zzhSameGrid(a, c), "SetPageOrientation: grid untouched")
	}
}

func ZZH_C12_SetDistancesGutterGrid() {
	d := zzhState12()
	a := zzhSnap12(d)
	op := zzvChoice(4)
	var err error
	var bad bool
	x, y := zzvFloatIn(-100, 600), zzvFloatIn(-100, 600)
	gt := zzhGrid()
	pitch, cs := zzvIntIn(0, 31680), zzvIntIn(0, 31680)
	switch op {
	case 0:
		err = d.SetHeaderFooterDistance(x, y)
		bad = zzvOr(x < 0, y < 0)
	case 1:
		err = d.SetGutterWidth(x)
		bad = x < 0
	case 2:
		err = d.SetDocGrid(gt, pitch, cs)
		bad = gt == ""
	case 3:
		err = d.ClearDocGrid()
	}
	c := zzhSnap12(d)
	if bad {
		zzvAssert(err != nil, "setter: invalid request rejected")
		zzvAssert(zzhSameAll(a, c), "setter: a rejected request changes nothing")
		zzvReach("rejected")
		return
	}
	zzvAssert(err == nil, "setter: valid request accepted")
	if true {
		zzvAssert(zzhSizeKept(a, c), "setter: never alters the page size")
		zzvAssert(c.orient == a.orient, "setter: never alters the orientation")
	}
	g := d.GetPageSettings()
	switch op {
	case 0:
		zzvAssert(zzvAnd(zzvAbsLE(g.HeaderDistance, x, zzhTwip), zzvAbsLE(g.FooterDistance, y, zzhTwip)), "SetHeaderFooterDistance: read back as set")
		if !a.fresh || true {
			zzvAssert(zzvAnd(zzvAnd(c.top == a.top, c.right == a.right), zzvAnd(zzvAnd(c.bottom == a.bottom, c.left == a.left), c.gutter == a.gutter)), "SetHeaderFooterDistance: margins and gutter untouched")
		}
	case 1:
		zzvAssert(zzvAbsLE(g.GutterWidth, x, zzhTwip), "SetGutterWidth: read back as set")
		if !a.fresh || true {
			zzvAssert(zzvAnd(zzvAnd(c.top == a.top, c.right == a.right), zzvAnd(zzvAnd(c.bottom == a.bottom, c.left == a.left), zzvAnd(c.header == a.header, c.foot == a.foot))), "SetGutterWidth: margins and distances untouched")
		}
	case 2:
		zzvAssert(g.DocGridType == gt && g.DocGridLinePitch == pitch && g.DocGridCharSpace == cs, "SetDocGrid: read back as set")
		if !a.fresh || true {
			zzvAssert(zzhSameMargins(a, c), "SetDocGrid: margins untouched")
		}
	case 3:
		zzvAssert(!c.hasGrid, "ClearDocGrid: grid removed")
		zzvAssert(zzhSameMargins(a, c), "ClearDocGrid: margins untouched")
	}
	if op < 2 && a.hasGrid {
		zzvAssert(zzhSameGrid(a, c), "setter: grid untouched")
	}
	zzvReach("accepted")
}

func ZZH_C12_SetSize() {
	d := zzhState12()
	a := zzhSnap12(d)
	custom := zzvBool()
	var err error
	var lw, lh float64
	bad := false
	if custom {
		lw, lh = zzvFloatIn(-100, 1000), zzvFloatIn(-100, 1000)
		err = d.SetCustomPageSize(lw, lh)
		bad = zzvNot(zzvAnd(zzvAnd(lw >= 12.7, lw <= 558.8), zzvAnd(lh >= 12.7, lh <= 558.8)))
	} else {
		sz := zzhSizes[zzvChoice(5)]
		err = d.SetPageSize(sz)
		lw, lh = predefinedSizes[sz].width, predefinedSizes[sz].height
	}
	c := zzhSnap12(d)
	if bad {
		zzvAssert(err != nil, "SetCustomPageSize: out-of-range size rejected")
		zzvAssert(zzhSameAll(a, c), "SetCustomPageSize: a rejected request changes nothing")
		zzvReach("rejected")
		return
	}
	zzvAssert(err == nil, "size setter: valid request accepted")
	zzvAssert(c.orient == a.orient, "size setter: never alters the orientation")
	pw, ph := lw, lh
	if c.orient == "landscape" {
		pw, ph = lh, lw
	}
	zzvAssert(zzvAnd(zzvAbsLE(c.w, pw*56.692913385827, 0.51), zzvAbsLE(c.h, ph*56.692913385827, 0.51)), "size setter: stored page is the requested size in the current orientation")
	if !a.fresh || true {
		zzvAssert(zzhSameMargins(a, c), "size setter: margins untouched")
	}
	if a.hasGrid {
		zzvAssert(zzhSameGrid(a, c), "size setter: grid untouched")
	}
	zzvReach("accepted")
}

// KF-C12-custom-bound: a valid custom size at the very edge of the accepted range reads back just
// outside it (12.7 mm -> 720 twips -> 12.69999... mm), so every read-modify-write setter is rejected.
func ZZH_C12_CustomSizeAtBound() {
	d := New()
	s := DefaultPageSettings()
	s.Size = PageSizeCustom
	s.CustomWidth = zzvFloatIn(12.7, 558.8)
	s.CustomHeight = zzvFloatIn(12.7, 558.8)
	zzvAssume(d.SetPageSettings(s) == nil)
	edge := zzvOr(zzvOr(s.CustomWidth < 12.71, s.CustomWidth > 558.79), zzvOr(s.CustomHeight < 12.71, s.CustomHeight > 558.79))
	if edge {
		zzvKnown("KF-C12-custom-bound", "boundary custom size")
	}
	// the defect needs a size within half a twip (0.0088 mm) of the bound; the rest of the 0.01 mm
	// band is the fringe where the real-number float model cannot tell (its counterexamples there
	// need not replay) - two clauses so that the core of the region is confirmed on its own
	ok := d.SetGutterWidth(zzvFloatIn(0, 100)) == nil
	if s.CustomWidth < 12.704 {
		zzvAssert(ok, "boundary custom size (within 0.004 mm of the lower bound): a valid setter call on a valid custom page is accepted")
	} else {
		zzvAssert(ok, "boundary custom size: a valid setter call on a valid custom page is accepted")
	}
	if !edge {
		zzvReach("inside")
	}
}
