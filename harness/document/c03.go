package document

import (
	"bytes"
	"io"
)

// C03: saving then opening a document loses nothing the library can express.
//
// A body element is populated field by field (zzvFill: every string a symbolic string, every
// optional element present), placed in a document, saved with the real ToBytes (custom
// MarshalXML methods executed; encoding/xml's struct marshalling replaced by its tag-derived
// model) and opened with the real OpenFromMemory/parse* reader. One obligation per field path.

func zzhRoundTrip(d *Document, what string) *Document {
	data, err := d.ToBytes()
	zzvAssert(err == nil, what+": ToBytes succeeds")
	d2, err := OpenFromMemory(io.NopCloser(bytes.NewReader(data)))
	zzvAssert(err == nil && d2 != nil, what+": the saved package opens")
	return d2
}

func zzhBodyWithout(d *Document) []interface{} {
	var out []interface{}
	for _, e := range d.Body.Elements {
		if _, isSect := e.(*SectionProperties); !isSect {
			out = append(out, e)
		}
	}
	return out
}

// zzhKnownDrops marks the field paths the reader is known not to restore (listed findings); any
// other field that stops surviving is a new violation.
func zzhKnownDrops() {
	zzvKnown("KF-C03-reader-paragraph-properties", "round trip: ParagraphProperties.KeepLines survives|round trip: ParagraphProperties.KeepNext survives|round trip: ParagraphProperties.OutlineLevel survives|round trip: ParagraphProperties.PageBreakBefore survives|round trip: ParagraphProperties.ParagraphBorder survives|round trip: ParagraphProperties.SnapToGrid survives|round trip: ParagraphProperties.Tabs survives|round trip: ParagraphProperties.WidowControl survives")
	zzvKnown("KF-C03-reader-run-content", "round trip: Run.Break survives|round trip: Run.FieldChar survives|round trip: Run.InstrText survives")
	zzvKnown("KF-C03-reader-drawing", "round trip: AnchorDrawing.CNvGraphicFramePr survives|round trip: AnchorDrawing.EffectExtent survives|round trip: AnchorDrawing.PositionH survives|round trip: AnchorDrawing.PositionV survives|round trip: AnchorDrawing.SimplePosition survives|round trip: AnchorDrawing.WrapThrough survives|round trip: AnchorDrawing.WrapTight survives|round trip: AnchorDrawing.WrapTopAndBottom survives|round trip: CNvPicPr.PicLocks survives")
	zzvKnown("KF-C03-reader-nested-tables", "round trip: TableCell.Tables keeps its number of elements")
	zzvKnown("KF-C03-reader-section", "round trip: SectionProperties.PageNumType survives|round trip: SectionProperties.TitlePage survives")
}

func ZZH_C03_Paragraph() {
	p := &Paragraph{}
	zzvFill(p)
	for i := range p.Runs {
		p.Runs[i].Text.Space = "preserve"
	}
	zzhRoundTripElement(p, "paragraph")
}

func zzhRoundTripElement(el interface{}, name string) {
	d := New()
	d.Body.Elements = []interface{}{el}
	zzhKnownDrops()
	d2 := zzhRoundTrip(d, name)
	if d2 == nil {
		return
	}
	els := zzhBodyWithout(d2)
	if _, isSect := el.(*SectionProperties); isSect {
		els = d2.Body.Elements
	}
	zzvAssert(len(els) == 1, name+": the body has the same number of elements after save and open")
	if len(els) == 1 {
		zzvAssertSame(el, els[0], "round trip")
		d3 := zzhRoundTrip(d2, name+", second cycle")
		if d3 != nil {
			els3 := zzhBodyWithout(d3)
			if _, isSect := el.(*SectionProperties); isSect {
				els3 = d3.Body.Elements
			}
			zzvAssert(len(els3) == 1, name+": a second save/open cycle keeps the number of elements")
			if len(els3) == 1 {
				zzvAssertSame(els[0], els3[0], "second cycle")
			}
		}
	}
	zzvReach(name)
}

func ZZH_C03_Table() {
	t := &Table{}
	zzvFill(t)
	zzhRoundTripElement(t, "table")
}

func ZZH_C03_NestedTable() {
	inner := Table{}
	zzvFill(&inner)
	t := &Table{Grid: &TableGrid{Cols: []TableGridCol{{W: "100"}}},
		Rows: []TableRow{{Cells: []TableCell{{Paragraphs: []Paragraph{{}}, Tables: []Table{inner}}}}}}
	zzhRoundTripElement(t, "nested table")
}

func ZZH_C03_SectionProperties() {
	sp := &SectionProperties{}
	zzvFill(sp)
	zzhRoundTripElement(sp, "section settings")
}

// zzhWord: a non-empty symbolic string (tab, newline, printable ASCII).
func zzhWord() string {
	w := zzvPrintable(6)
	zzvAssume(w != "")
	return w
}

// zzhFormat: a text format whose flags follow one of three patterns and whose values are symbolic.
func zzhFormat() *TextFormat {
	f := &TextFormat{FontSize: zzvIntIn(1, 200), FontColor: zzhWord(), FontFamily: zzhWord(), Highlight: zzhWord()}
	// colours are passed without the optional leading '#'; empty values mean "not set" to the API
	zzvAssume(!zzvStrHasPrefix(f.FontColor, "#"))
	switch zzvChoice(3) {
	case 0:
		f.Bold, f.Italic, f.Underline, f.Strike = true, true, true, true
	case 1:
		f.Bold, f.Underline = true, true
	}
	return f
}

func zzhNonSection(els []interface{}) []interface{} {
	var out []interface{}
	for _, e := range els {
		if _, isSect := e.(*SectionProperties); !isSect {
			out = append(out, e)
		}
	}
	return out
}

func zzhSection(els []interface{}) *SectionProperties {
	for _, e := range els {
		if sp, isSect := e.(*SectionProperties); isSect {
			return sp
		}
	}
	return nil
}

// zzhSameBody: same sequence of non-section elements, field by field, and the same section
// settings (which the writer moves to the end of the body by design).
func zzhSameBody(a, b *Document, label string) {
	zzvAssertSame(interface{}(zzhNonSection(a.Body.Elements)), interface{}(zzhNonSection(b.Body.Elements)), label)
	sa, sb := zzhSection(a.Body.Elements), zzhSection(b.Body.Elements)
	zzvAssert((sa == nil) == (sb == nil), label+": section settings present exactly if they were")
	if sa != nil && sb != nil {
		zzvAssertSame(interface{}(sa), interface{}(sb), label)
	}
	// what the library's own accessors report for the section: page settings, and the
	// header/footer references of the body (wherever the section settings sit in the body)
	pa, pb := a.GetPageSettings(), b.GetPageSettings()
	zzvAssert(pa.Size == pb.Size && pa.Orientation == pb.Orientation, label+": page size and orientation read back the same")
	zzvAssert(pa.CustomWidth == pb.CustomWidth && pa.CustomHeight == pb.CustomHeight, label+": custom page dimensions read back the same")
	zzvAssert(pa.MarginTop == pb.MarginTop && pa.MarginRight == pb.MarginRight && pa.MarginBottom == pb.MarginBottom && pa.MarginLeft == pb.MarginLeft, label+": page margins read back the same")
	zzvAssert(pa.HeaderDistance == pb.HeaderDistance && pa.FooterDistance == pb.FooterDistance && pa.GutterWidth == pb.GutterWidth, label+": header/footer distances and gutter read back the same")
	ra, rb := zzhSectionRefs(a), zzhSectionRefs(b)
	zzvAssert(len(ra) == len(rb), label+": the same number of header/footer references")
	if len(ra) == len(rb) {
		for i := range ra {
			zzvAssert(ra[i] == rb[i], label+": header/footer references keep kind and relationship id")
		}
	}
}

// zzhSectionRefs lists "h|f:kind:id" for every header/footer reference of every section-settings
// element of the body, in body order.
func zzhSectionRefs(d *Document) []string {
	var out []string
	for _, e := range d.Body.Elements {
		if sp, isSect := e.(*SectionProperties); isSect {
			for _, r := range sp.HeaderReferences {
				out = append(out, "h:"+r.Type+":"+r.ID)
			}
			for _, r := range sp.FooterReferences {
				out = append(out, "f:"+r.Type+":"+r.ID)
			}
		}
	}
	return out
}

// Documents built through the API (solver-chosen calls, symbolic texts incl. leading/trailing
// blanks, tabs and newlines, symbolic formatting arguments): the body read back after save+open
// is, element by element and field by field, the body that was saved; and a second cycle
// changes nothing.
func ZZH_C03_APIDocument() {
	d := New()
	k := zzvBound("api_calls", 2, 3)
	for i := 0; i < k; i++ {
		switch zzvChoice(8) {
		case 6:
			// page size/orientation set before content ...
			switch zzvChoice(3) {
			case 0:
				zzvAssume(d.SetPageSize(PageSizeA3) == nil)
				zzvAssume(d.SetPageOrientation(OrientationLandscape) == nil)
			case 1:
				// a custom page wider than tall, in landscape
				zzvAssume(d.SetCustomPageSize(300, 200) == nil)
				zzvAssume(d.SetPageOrientation(OrientationLandscape) == nil)
			case 2:
				zzvAssume(d.SetCustomPageSize(150, 220) == nil)
			}
			d.AddParagraph(zzvPrintable(6))
		case 7:
			// ... and a header or footer attached after it
			kind := [...]HeaderFooterType{HeaderFooterTypeDefault, HeaderFooterTypeFirst, HeaderFooterTypeEven}[zzvChoice(3)]
			if zzvBool() {
				zzvAssume(d.AddHeader(kind, zzhWord()) == nil)
			} else {
				zzvAssume(d.AddFooter(kind, zzhWord()) == nil)
			}
		case 0:
			d.AddParagraph(zzvPrintable(6))
		case 1:
			p := d.AddFormattedParagraph(zzvPrintable(6), zzhFormat())
			p.SetAlignment(AlignmentType(zzhWord()))
			if zzvBool() {
				p.AddFormattedText(zzhWord(), zzhFormat())
			}
		case 2:
			p := d.AddParagraph(zzvPrintable(6))
			p.SetSpacing(&SpacingConfig{BeforePara: zzvIntIn(1, 100), AfterPara: zzvIntIn(1, 100), FirstLineIndent: zzvIntIn(1, 100)})
			p.SetStyle(zzhWord())
		case 3:
			rows, cols := 1+zzvChoice(2), 2
			data := make([][]string, rows)
			for r := range data {
				data[r] = make([]string, cols)
				for c := range data[r] {
					data[r][c] = zzhWord()
				}
			}
			t, err := d.AddTable(&TableConfig{Rows: rows, Cols: cols, Width: zzvIntIn(1, 20000), Data: data})
			zzvAssume(err == nil)
			switch zzvChoice(4) {
			case 3:
				// formatted cell text (the font is set for one script slot only)
				zzvAssume(t.SetCellFormattedText(0, 1, zzhWord(), zzhFormat()) == nil)
			case 1:
				zzvAssume(t.MergeCellsHorizontal(0, 0, 1) == nil)
			case 2:
				if rows == 2 {
					zzvAssume(t.MergeCellsVertical(0, 1, 0) == nil)
				}
			}
		case 4:
			_, err := d.AddImageFromData(zzhPNG, "p.png", ImageFormatPNG, 3, 2, &ImageConfig{AltText: zzhWord(), Title: zzhWord()})
			zzvAssume(err == nil)
		case 5:
			zzvAssume(d.SetPageMargins(20, 20, 20, 20) == nil)
			d.AddParagraph(zzvPrintable(6))
		}
	}
	zzhKnownDrops()
	d2 := zzhRoundTrip(d, "document")
	if d2 == nil {
		return
	}
	zzhSameBody(d, d2, "round trip")
	d3 := zzhRoundTrip(d2, "document, second cycle")
	if d3 != nil {
		zzhSameBody(d2, d3, "second cycle")
	}
	zzvReach("document")
}
