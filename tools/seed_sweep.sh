#!/bin/bash
# seed_sweep.sh [tier]: runs every seeded change against the quick check of its property and
# writes seeded/SWEEP.txt (exit 1 = VIOLATION reported, 0 = not detected, 2 = check error).
cd /verif
TIER=${1:-quick}
out=seeded/SWEEP.txt
: > $out
for d in seeded/C*-m*; do
  id=$(basename $d); p=${id%%-*}
  chk=$(python3 -c "import json;r=json.load(open('seeded/RESULTS.json'));print(r.get('$id',{}).get('checked_by','$p'))")
  res=$(./tools/seed_check.sh $chk $d/patch.diff $TIER 2>&1 | tail -1)
  echo "$id check=$chk $res" | tee -a $out
done
