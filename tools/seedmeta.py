#!/usr/bin/env python3
"""Writes seeded/<id>/meta.json from seeded/RESULTS.json (maintained by hand: what was run, what detected it)."""
import json, os, re
root = '/verif/seeded'
res = json.load(open(os.path.join(root, 'RESULTS.json')))
for sid, r in sorted(res.items()):
    d = os.path.join(root, sid)
    if not os.path.isdir(d):
        continue
    notes = open(os.path.join(d, 'notes.md')).read() if os.path.exists(os.path.join(d, 'notes.md')) else ''
    meta = {
        'id': sid,
        'property': sid.split('-')[0],
        'breaks': r.get('breaks', ''),
        'needs_to_manifest': r.get('needs', ''),
        'origin': 'written by an independent sub-agent that saw only the property text and a scratch worktree of /repo',
        'confirmed': {
            'how': 'tools/seed_confirm.sh in a scratch worktree: demo_test.go passes on the clean tree; with patch.diff applied the existing suite (go test ./pkg/... ./test/...) passes and demo_test.go fails',
            'result': r.get('confirmed', 'CONFIRMED'),
        },
        'check_run': ('tools/seed_check.sh %s seeded/%s/patch.diff (git -C /repo apply; ./bin/vcheck run %s --tier quick; git -C /repo checkout -- .)' % (r.get('checked_by', sid.split('-')[0]), sid, r.get('checked_by', sid.split('-')[0]))) if '-m' in sid else ('tools/seed_par.sh %s (patch applied to a scratch worktree of /repo, VERIF_REPO pointing at it; ./bin/vcheck run %s --tier quick; worktree removed)' % (sid, r.get('checked_by', sid.split('-')[0]))),
        'detected': r.get('detected'),
        'detected_by': r.get('detected_by', ''),
        'history': r.get('history', ''),
        'notes_from_author': notes.strip(),
    }
    json.dump(meta, open(os.path.join(d, 'meta.json'), 'w'), indent=1, ensure_ascii=False)
print('ok', len(res))
