#!/usr/bin/env python3
"""Generates /verif/MANIFEST.json from the table in tools/checks.json (single source of truth)."""
import json, os
here = os.path.dirname(os.path.abspath(__file__))
root = os.path.dirname(here)
tbl = json.load(open(os.path.join(here, "checks.json")))
ENV = "GOFLAGS=-mod=mod GOPROXY=off GOSUMDB=off GOTOOLCHAIN=local"
man = {
    "version": 1,
    "setup_cmd": "cd engine && %s go build -o ../bin/vcheck ./cmd/vcheck" % ENV,
    "hooks": {
        "guard": "verif",
        "enable": "no hooks in /repo are needed: harnesses and native replay twins are injected as go/packages and `go test -overlay` overlays built from /verif/harness; the build tag 'verif' is reserved",
        "baseline_off_cmd": "for m in $(cat /w/out/gomods.txt); do MF=$(cd /repo/$m && . /w/out/goenv.sh && gomodflag); (cd /repo/$m && go test $MF -json -vet=off -count=1 -timeout 25m ./...); done",
        "source_commits": tbl.get("source_commits", []),
        "add_only": True,
    },
    "engines": [{
        "name": "gosx",
        "path": "engine",
        "serves_properties": sorted(tbl["checks"].keys()),
        "kind_free_text": "symbolic executor for Go written for this task: go/ssa (x/tools v0.29.0) of /repo's working tree interpreted over SMT terms (forked go/ssa/interp value domain), stateless DFS by decision-prefix re-execution, z3 5.1.0 (z3-new) via one long-lived `z3-new -in` per worker with a one-shot fallback process, native replay of every solver model through `go test -overlay`",
    }],
    "checks": [],
    "notes": tbl.get("notes", ""),
    "not_applicable": [],
}
for pid in sorted(tbl["checks"].keys()):
    c = tbl["checks"][pid]
    man["checks"].append({
        "property_id": pid,
        "quick_cmd": "./bin/vcheck run %s --tier quick" % pid,
        "thorough_cmd": "./bin/vcheck run %s --tier thorough -j 16" % pid,
        "evidence_file": "evidence/%s.json" % pid,
        "replay_cmd_template": "./bin/vcheck replay {path}",
        "engine": "gosx",
        "level_claimed": {"category": "model_checking", "text": c["text"], "design_ref": c.get("design_ref", "DESIGN.md §7 " + pid)},
        "level_note": c["note"],
        "technique": c.get("technique", "bounded symbolic execution of the real Go code (go/ssa -> SMT terms) decided by z3; sat models replayed natively"),
    })
for pid, reason in sorted(tbl["not_applicable"].items()):
    if pid not in tbl["checks"]:
        man["not_applicable"].append({"property_id": pid, "reason": reason})
json.dump(man, open(os.path.join(root, "MANIFEST.json"), "w"), indent=1, ensure_ascii=False)
print("checks:", [c["property_id"] for c in man["checks"]], "n/a:", [n["property_id"] for n in man["not_applicable"]])
