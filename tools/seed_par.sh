#!/bin/bash
# seed_par.sh [-t tier] [-P n] [-c CHECK] <seed-id>... : runs seeded changes against the check of their
# property IN PARALLEL, each in its own scratch worktree of /repo (VERIF_REPO) and its own scratch copy
# of the harness sources (VERIF_DIR), so that /repo and /verif/evidence are never touched. This is a
# development aid for sweeps; the authoritative way (apply to /repo, run the registered command, revert)
# is tools/seed_check.sh. Output: one line per seed "id check exit=<rc> <first verdict line>".
TIER=quick; PAR=4; CHK=""
while getopts "t:P:c:" o; do case $o in t) TIER=$OPTARG;; P) PAR=$OPTARG;; c) CHK=$OPTARG;; esac; done
shift $((OPTIND-1))
cd /verif
run_one() {
  id=$1; p=${CHK:-${id%%-*}}
  wt=/tmp/swt_$id; vd=/tmp/svd_$id
  rm -rf $vd; git -C /repo worktree remove --force $wt 2>/dev/null; rm -rf $wt
  git -C /repo worktree add -q --detach $wt HEAD || { echo "$id worktree failed"; return; }
  if ! git -C $wt apply /verif/seeded/$id/patch.diff; then echo "$id patch does not apply"; git -C /repo worktree remove --force $wt; return; fi
  mkdir -p $vd/evidence $vd/replays; cp -r /verif/harness $vd/; cp /verif/KNOWN_FINDINGS.txt $vd/
  VERIF_REPO=$wt VERIF_DIR=$vd timeout 1800 /verif/bin/vcheck run $p --tier $TIER -j 4 > $vd/log 2>&1; rc=$?
  v=$(grep -E "^VIOLATION|^CHECK-ERROR|violated:" $vd/log | head -2 | tr '\n' ' ' | cut -c1-300)
  echo "$id check=$p exit=$rc $v"
  mkdir -p /tmp/seedlogs; cp $vd/log /tmp/seedlogs/$id.$p.log
  git -C /repo worktree remove --force $wt; rm -rf $vd
}
export -f run_one; export TIER CHK
printf "%s\n" "$@" | xargs -P $PAR -I{} bash -c 'run_one {}'
