#!/bin/bash
# seed_check.sh <property> <patch.diff> [tier]: applies the patch to /repo, runs the registered check, reverts.
set -u
P=$1; PATCH=$2; TIER=${3:-quick}
cd /verif
git -C /repo diff --quiet || { echo "/repo is dirty"; exit 2; }
git -C /repo apply $(realpath $PATCH) || { echo "patch does not apply"; exit 2; }
./bin/vcheck run $P --tier $TIER > /tmp/seedcheck_$P.$$ 2>&1; rc=$?
git -C /repo checkout -- .
grep -E "^VIOLATION|^OK|^CHECK-ERROR|violated:|load/build" /tmp/seedcheck_$P.$$ | head -8
echo "exit=$rc"
rm -f /tmp/seedcheck_$P.$$
git -C /verif checkout -- evidence/$P.json 2>/dev/null
exit $rc
