#!/usr/bin/env python3
"""seed_record.py <sweep-output> [history.json]: merges the lines of a tools/seed_par.sh sweep into
seeded/RESULTS.json (detected / detected_by per seed; 'breaks' and 'needs' from the author's notes
when the entry is new; 'history' from the optional JSON map id -> text) and rewrites every meta.json
through tools/seedmeta.py."""
import json, os, re, subprocess, sys
root = '/verif/seeded'
res = json.load(open(os.path.join(root, 'RESULTS.json')))
hist = json.load(open(sys.argv[2])) if len(sys.argv) > 2 else {}
for line in open(sys.argv[1]):
    m = re.match(r'^(C\d+-\w+) check=(C\d+) exit=(\d+)\s*(.*)$', line.strip())
    if not m:
        continue
    sid, chk, rc, rest = m.group(1), m.group(2), int(m.group(3)), m.group(4)
    e = res.setdefault(sid, {})
    notes_p = os.path.join(root, sid, 'notes.md')
    notes = open(notes_p).read() if os.path.exists(notes_p) else ''
    if 'breaks' not in e:
        title = notes.strip().split('\n')[0].lstrip('# ').strip()
        cl = re.search(r'[Cc]lauses? broken\**:?\**\s*(.+?)(?:\n[-*\n]|\Z)', notes, re.S)
        e['breaks'] = (title + ' -- ' + re.sub(r'\s+', ' ', cl.group(1))[:300]) if cl else title
        nd = re.search(r'(?:[Nn]eeded to manifest|What (?:it|is) need(?:s|ed)[^:]*|Trigger|Needed)\**:?\**\s*(.+?)(?:\n[-*\n]|\Z)', notes, re.S)
        e['needs'] = re.sub(r'\s+', ' ', nd.group(1))[:400] if nd else ''
    e['confirmed'] = 'CONFIRMED'
    if chk != sid.split('-')[0]:
        e['checked_by'] = chk
    e['detected'] = (rc == 1)
    viol = re.findall(r'violated: (.+?)\s+\[(ZZH_\w+)\]', rest)
    if rc == 1 and viol:
        e['detected_by'] = '; '.join("%s: '%s'" % (h, c) for c, h in viol[:2])
    elif rc == 1:
        e['detected_by'] = 'VIOLATION reported by the quick check of ' + chk
    else:
        e['detected_by'] = ''
        e['not_detected_reason'] = rest[:300] or 'check exits 0'
    if sid in hist:
        e['history'] = hist[sid]
json.dump(res, open(os.path.join(root, 'RESULTS.json'), 'w'), indent=1, ensure_ascii=False)
subprocess.check_call(['python3', '/verif/tools/seedmeta.py'])
