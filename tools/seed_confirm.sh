#!/bin/bash
# seed_confirm.sh <seed-dir containing patch.diff, demo_test.go> <scratch worktree> : confirms
# (1) demo passes on clean tree, (2) suite passes with the patch, (3) demo fails with the patch.
set -u
SD=$1; WT=$2
export GOFLAGS=-mod=mod GOPROXY=off GOSUMDB=off GOTOOLCHAIN=local
pkg=$(grep -m1 '^package ' $SD/demo_test.go | awk '{print $2}')
pkg=${pkg%_test}
case $pkg in document|style|markdown) PD=pkg/$pkg;; *) PD=test;; esac
cd $WT || exit 2
git checkout -q -- . ; git clean -fdq -e zz_seed
cp $SD/demo_test.go $PD/zz_demo_test.go
go test -vet=off -count=1 -run 'Test' ./$PD > /tmp/sc_clean.$$ 2>&1; c1=$?
git apply $SD/patch.diff || { echo "PATCH-DOES-NOT-APPLY"; rm -f $PD/zz_demo_test.go; exit 2; }
rm -f $PD/zz_demo_test.go
go test -vet=off -count=1 ./pkg/... ./test/... > /tmp/sc_suite.$$ 2>&1; c2=$?
cp $SD/demo_test.go $PD/zz_demo_test.go
timeout 600 go test -vet=off -count=1 ./$PD > /tmp/sc_mut.$$ 2>&1; c3=$?
rm -f $PD/zz_demo_test.go
git checkout -q -- . ; git clean -fdq -e zz_seed
echo "demo_on_clean_exit=$c1 suite_with_patch_exit=$c2 demo_with_patch_exit=$c3"
if [ $c1 -eq 0 ] && [ $c2 -eq 0 ] && [ $c3 -ne 0 ]; then echo CONFIRMED; rm -f /tmp/sc_*.$$; exit 0; fi
tail -5 /tmp/sc_clean.$$ /tmp/sc_suite.$$ /tmp/sc_mut.$$; rm -f /tmp/sc_*.$$
echo NOT-CONFIRMED; exit 1
