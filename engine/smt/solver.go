package smt

import (
	"bufio"
	"fmt"
	"io"
	"math/big"
	"os"
	"os/exec"
	"strings"
	"sync"
	"sync/atomic"
	"time"
)

type Result int

const (
	Unsat Result = iota
	Sat
	Unknown
)

func (r Result) String() string { return [...]string{"unsat", "sat", "unknown"}[r] }

// Model maps variable names to constant terms' printed values.
type Model struct {
	Ints  map[string]*big.Int
	Reals map[string]*big.Rat
	Strs  map[string]string
	Bools map[string]bool
}

// Solver is a long-lived solver process fed through stdin.
type Solver struct {
	Path         string
	Args         []string
	TimeoutMS    int
	cmd          *exec.Cmd
	in           io.WriteCloser
	out          *bufio.Reader
	mu           sync.Mutex
	Queries      int
	Time         time.Duration
	Errors       int
	HardTimeouts int
	OneShots     int
	cache        map[string]cached
	CacheHits    int
}

type cached struct {
	r Result
	m *Model
}

func NewZ3(path string, timeoutMS int) *Solver {
	return &Solver{Path: path, Args: []string{"-in"}, TimeoutMS: timeoutMS, cache: map[string]cached{}}
}

func (s *Solver) start() error {
	s.cmd = exec.Command(s.Path, s.Args...)
	var err error
	if s.in, err = s.cmd.StdinPipe(); err != nil {
		return err
	}
	o, err := s.cmd.StdoutPipe()
	if err != nil {
		return err
	}
	s.cmd.Stderr = s.cmd.Stdout
	s.out = bufio.NewReaderSize(o, 1<<20)
	if err := s.cmd.Start(); err != nil {
		return err
	}
	fmt.Fprintf(s.in, "(set-option :timeout %d)\n", s.TimeoutMS)
	return nil
}

func (s *Solver) Close() {
	if s.cmd != nil {
		s.in.Close()
		s.cmd.Process.Kill()
		s.cmd.Wait()
		s.cmd = nil
	}
}

// readSexp reads one balanced s-expression or atom line from the solver.
func (s *Solver) readSexp() (string, error) {
	var sb strings.Builder
	depth := 0
	inStr := false
	started := false
	for {
		c, err := s.out.ReadByte()
		if err != nil {
			return sb.String(), err
		}
		if !started {
			if c == '\n' || c == ' ' || c == '\r' || c == '\t' {
				continue
			}
			started = true
		}
		sb.WriteByte(c)
		if inStr {
			if c == '"' {
				inStr = false
			}
			continue
		}
		switch c {
		case '"':
			inStr = true
		case '(':
			depth++
		case ')':
			depth--
			if depth == 0 {
				return sb.String(), nil
			}
		case '\n':
			if depth == 0 {
				return strings.TrimSpace(sb.String()), nil
			}
		}
	}
}

// Check decides the conjunction of the asserted terms. When wantModel is set and
// the result is Sat, the values of all variables are returned.
func (s *Solver) Check(terms []*Term, wantModel bool) (Result, *Model, error) {
	p := NewPrinter()
	for _, t := range terms {
		p.Assert(t)
	}
	body := p.String()
	key := body
	if wantModel {
		key = "M" + body
	}
	s.mu.Lock()
	defer s.mu.Unlock()
	if c, ok := s.cache[key]; ok {
		s.CacheHits++
		return c.r, c.m, nil
	}
	if !wantModel {
		if c, ok := s.cache["M"+body]; ok {
			s.CacheHits++
			return c.r, nil, nil
		}
	}
	if s.cmd == nil {
		if err := s.start(); err != nil {
			return Unknown, nil, err
		}
	}
	t0 := time.Now()
	s.Queries++
	// hard wall-clock watchdog: z3's soft :timeout is not always honoured (strings, NRA)
	proc := s.cmd.Process
	killed := false
	wd := time.AfterFunc(time.Duration(s.TimeoutMS)*time.Millisecond+3*time.Second, func() {
		killed = true
		proc.Kill()
	})
	defer wd.Stop()
	var q strings.Builder
	q.WriteString("(push)\n")
	q.WriteString(body)
	q.WriteString("(check-sat)\n")
	if _, err := io.WriteString(s.in, q.String()); err != nil {
		s.Close()
		return Unknown, nil, err
	}
	res := Unknown
	var err error
	for {
		line, e := s.readSexp()
		if e != nil {
			s.Close()
			s.Time += time.Since(t0)
			if killed {
				s.HardTimeouts++
				r1, m1 := s.oneShot(body, p, wantModel)
				s.OneShots++
				s.Time += time.Since(t0)
				dumpSlow(body, time.Since(t0), r1)
				s.cache[key] = cached{r1, m1}
				return r1, m1, nil
			}
			return Unknown, nil, fmt.Errorf("solver died: %v (%s)", e, line)
		}
		if line == "sat" {
			res = Sat
			break
		}
		if line == "unsat" {
			res = Unsat
			break
		}
		if line == "unknown" || line == "timeout" {
			res = Unknown
			break
		}
		if strings.HasPrefix(line, "(error") {
			s.Errors++
			err = fmt.Errorf("solver: %s", line)
			// keep reading until the check-sat answer arrives
			continue
		}
	}
	if err != nil {
		res = Unknown
	}
	var m *Model
	if res == Sat && wantModel {
		vars := p.SortedVars()
		if len(vars) > 0 {
			var g strings.Builder
			g.WriteString("(get-value (")
			for _, v := range vars {
				g.WriteString(v.Name)
				g.WriteByte(' ')
			}
			g.WriteString("))\n")
			io.WriteString(s.in, g.String())
			txt, e := s.readSexp()
			if e != nil {
				s.Close()
				if killed {
					s.HardTimeouts++
					return Unknown, nil, nil
				}
				return Unknown, nil, e
			}
			m, e = parseModel(txt, vars)
			if e != nil {
				err = e
				res = Unknown
			}
		} else {
			m = &Model{}
		}
	}
	io.WriteString(s.in, "(pop)\n")
	if res == Unknown && err == nil {
		// the incremental core gave up: ask a fresh, non-incremental process (tactic-based
		// solver; decides many nonlinear queries the incremental core does not)
		wd.Stop()
		res, m = s.oneShot(body, p, wantModel)
		s.OneShots++
	}
	s.Time += time.Since(t0)
	dumpSlow(body, time.Since(t0), res)
	if err == nil {
		s.cache[key] = cached{res, m}
	}
	return res, m, err
}

// oneShot decides body in a fresh solver process without push/pop.
func (s *Solver) oneShot(body string, p *Printer, wantModel bool) (Result, *Model) {
	var q strings.Builder
	q.WriteString(body)
	q.WriteString("(check-sat)\n")
	vars := p.SortedVars()
	if wantModel && len(vars) > 0 {
		q.WriteString("(get-value (")
		for _, v := range vars {
			q.WriteString(v.Name)
			q.WriteByte(' ')
		}
		q.WriteString("))\n")
	}
	cmd := exec.Command(s.Path, "-in", fmt.Sprintf("-t:%d", s.TimeoutMS))
	cmd.Stdin = strings.NewReader(q.String())
	done := make(chan struct{})
	var out []byte
	go func() {
		out, _ = cmd.CombinedOutput()
		close(done)
	}()
	select {
	case <-done:
	case <-time.After(time.Duration(s.TimeoutMS)*time.Millisecond + 3*time.Second):
		if cmd.Process != nil {
			cmd.Process.Kill()
		}
		<-done
		return Unknown, nil
	}
	txt := strings.TrimSpace(string(out))
	if strings.Contains(txt, "(error") {
		return Unknown, nil
	}
	switch {
	case strings.HasPrefix(txt, "unsat"):
		return Unsat, nil
	case strings.HasPrefix(txt, "sat"):
		if !wantModel {
			return Sat, nil
		}
		if len(vars) == 0 {
			return Sat, &Model{}
		}
		rest := strings.TrimSpace(txt[3:])
		m, e := parseModel(rest, vars)
		if e != nil {
			return Unknown, nil
		}
		return Sat, m
	}
	return Unknown, nil
}

// ---- model parsing ----

type sx struct {
	atom string
	list []*sx
	isL  bool
}

func parseSx(s string, i *int) (*sx, error) {
	for *i < len(s) && (s[*i] == ' ' || s[*i] == '\n' || s[*i] == '\t' || s[*i] == '\r') {
		*i++
	}
	if *i >= len(s) {
		return nil, fmt.Errorf("eof")
	}
	if s[*i] == '(' {
		*i++
		n := &sx{isL: true}
		for {
			for *i < len(s) && (s[*i] == ' ' || s[*i] == '\n' || s[*i] == '\t' || s[*i] == '\r') {
				*i++
			}
			if *i >= len(s) {
				return nil, fmt.Errorf("eof in list")
			}
			if s[*i] == ')' {
				*i++
				return n, nil
			}
			c, err := parseSx(s, i)
			if err != nil {
				return nil, err
			}
			n.list = append(n.list, c)
		}
	}
	if s[*i] == '"' {
		j := *i + 1
		var sb strings.Builder
		sb.WriteByte('"')
		for j < len(s) {
			if s[j] == '"' {
				if j+1 < len(s) && s[j+1] == '"' {
					sb.WriteString(`""`)
					j += 2
					continue
				}
				break
			}
			sb.WriteByte(s[j])
			j++
		}
		sb.WriteByte('"')
		*i = j + 1
		return &sx{atom: sb.String()}, nil
	}
	j := *i
	for j < len(s) && s[j] != ' ' && s[j] != ')' && s[j] != '(' && s[j] != '\n' {
		j++
	}
	a := s[*i:j]
	*i = j
	return &sx{atom: a}, nil
}

func sxRat(n *sx) (*big.Rat, error) {
	if !n.isL {
		r, ok := new(big.Rat).SetString(n.atom)
		if !ok {
			return nil, fmt.Errorf("bad number %q", n.atom)
		}
		return r, nil
	}
	if len(n.list) == 0 {
		return nil, fmt.Errorf("empty number")
	}
	switch n.list[0].atom {
	case "-":
		if len(n.list) == 2 {
			r, err := sxRat(n.list[1])
			if err != nil {
				return nil, err
			}
			return r.Neg(r), nil
		}
	case "/":
		if len(n.list) == 3 {
			a, err := sxRat(n.list[1])
			if err != nil {
				return nil, err
			}
			b, err := sxRat(n.list[2])
			if err != nil {
				return nil, err
			}
			if b.Sign() == 0 {
				return nil, fmt.Errorf("div by zero in model")
			}
			return a.Quo(a, b), nil
		}
	case "to_real":
		if len(n.list) == 2 {
			return sxRat(n.list[1])
		}
	}
	return nil, fmt.Errorf("unsupported numeric value (algebraic?)")
}

// unquoteSMT decodes an SMT-LIB string literal into bytes; code points above
// 0xFF are emitted as UTF-8.
func unquoteSMT(a string) string {
	a = a[1 : len(a)-1]
	var out []byte
	for i := 0; i < len(a); {
		if a[i] == '"' && i+1 < len(a) && a[i+1] == '"' {
			out = append(out, '"')
			i += 2
			continue
		}
		if a[i] == '\\' && i+1 < len(a) && a[i+1] == 'u' {
			j := i + 2
			var hex string
			if j < len(a) && a[j] == '{' {
				k := strings.IndexByte(a[j:], '}')
				if k > 0 {
					hex = a[j+1 : j+k]
					j = j + k + 1
				}
			} else if j+4 <= len(a) {
				hex = a[j : j+4]
				j += 4
			}
			if hex != "" {
				var cp int64
				if _, err := fmt.Sscanf(hex, "%x", &cp); err == nil {
					if cp < 256 {
						out = append(out, byte(cp))
					} else {
						out = append(out, []byte(string(rune(cp)))...)
					}
					i = j
					continue
				}
			}
		}
		if a[i] == '\\' && i+1 < len(a) && a[i+1] == 'x' && i+4 <= len(a) {
			var cp int64
			if _, err := fmt.Sscanf(a[i+2:i+4], "%x", &cp); err == nil {
				out = append(out, byte(cp))
				i += 4
				continue
			}
		}
		out = append(out, a[i])
		i++
	}
	return string(out)
}

func parseModel(txt string, vars []*Term) (*Model, error) {
	i := 0
	root, err := parseSx(txt, &i)
	if err != nil {
		return nil, fmt.Errorf("model parse: %v in %q", err, txt)
	}
	m := &Model{Ints: map[string]*big.Int{}, Reals: map[string]*big.Rat{}, Strs: map[string]string{}, Bools: map[string]bool{}}
	sorts := map[string]Sort{}
	for _, v := range vars {
		sorts[v.Name] = v.Sort
	}
	for _, pair := range root.list {
		if !pair.isL || len(pair.list) != 2 {
			continue
		}
		name := pair.list[0].atom
		val := pair.list[1]
		switch sorts[name] {
		case Bool:
			m.Bools[name] = val.atom == "true"
		case Int:
			r, err := sxRat(val)
			if err != nil {
				return nil, fmt.Errorf("model value of %s: %v", name, err)
			}
			if !r.IsInt() {
				return nil, fmt.Errorf("non-integer model value for %s", name)
			}
			m.Ints[name] = new(big.Int).Set(r.Num())
		case Real:
			r, err := sxRat(val)
			if err != nil {
				return nil, fmt.Errorf("model value of %s: %v", name, err)
			}
			m.Reals[name] = r
		case Str:
			if val.isL || len(val.atom) < 2 || val.atom[0] != '"' {
				return nil, fmt.Errorf("bad string model value for %s", name)
			}
			m.Strs[name] = unquoteSMT(val.atom)
		}
	}
	return m, nil
}

var slowN int32

func dumpSlow(body string, d time.Duration, r Result) {
	dir := os.Getenv("VERIF_SLOWDIR")
	if dir == "" || d < 2*time.Second {
		return
	}
	n := atomic.AddInt32(&slowN, 1)
	if n > 40 {
		return
	}
	os.WriteFile(fmt.Sprintf("%s/slow_%d_%s_%dms.smt2", dir, n, r, d.Milliseconds()), []byte(body+"(check-sat)\n"), 0o644)
}
