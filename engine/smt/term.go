// Package smt: hash-consed SMT-LIB terms (Bool/Int/Real/String) with light
// simplification, a printer, and a driver for a long-lived solver process.
package smt

import (
	"fmt"
	"math/big"
	"sort"
	"strconv"
	"strings"
)

type Sort int

const (
	Bool Sort = iota
	Int
	Real
	Str
)

func (s Sort) String() string {
	switch s {
	case Bool:
		return "Bool"
	case Int:
		return "Int"
	case Real:
		return "Real"
	}
	return "String"
}

// Term is an immutable, hash-consed term. Terms are only valid within the
// Table that created them.
type Term struct {
	Op   string // "var", "const", or an SMT-LIB operator
	Sort Sort
	Args []*Term
	Name string   // var
	I    *big.Int // Int const
	R    *big.Rat // Real const
	S    string   // Str const
	B    bool     // Bool const
	ID   int
}

type Table struct {
	terms map[string]*Term
	unit  map[*Term]bool // string terms known to have length exactly 1 (single symbolic characters)
	next  int
	True  *Term
	False *Term
}

func NewTable() *Table {
	t := &Table{terms: map[string]*Term{}}
	t.True = t.mk(&Term{Op: "const", Sort: Bool, B: true}, "cb1")
	t.False = t.mk(&Term{Op: "const", Sort: Bool, B: false}, "cb0")
	return t
}

func (tb *Table) mk(t *Term, key string) *Term {
	if e, ok := tb.terms[key]; ok {
		return e
	}
	tb.next++
	t.ID = tb.next
	tb.terms[key] = t
	return t
}

func (tb *Table) app(op string, s Sort, args ...*Term) *Term {
	var sb strings.Builder
	sb.WriteString(op)
	for _, a := range args {
		sb.WriteByte(' ')
		sb.WriteString(strconv.Itoa(a.ID))
	}
	return tb.mk(&Term{Op: op, Sort: s, Args: args}, sb.String())
}

func (tb *Table) Var(name string, s Sort) *Term {
	return tb.mk(&Term{Op: "var", Sort: s, Name: name}, "v"+name)
}
func (tb *Table) IntC(i int64) *Term { return tb.BigC(big.NewInt(i)) }
func (tb *Table) BigC(i *big.Int) *Term {
	return tb.mk(&Term{Op: "const", Sort: Int, I: new(big.Int).Set(i)}, "ci"+i.String())
}
func (tb *Table) RatC(r *big.Rat) *Term {
	return tb.mk(&Term{Op: "const", Sort: Real, R: new(big.Rat).Set(r)}, "cr"+r.String())
}
func (tb *Table) FloatC(f float64) *Term {
	r := new(big.Rat)
	if r.SetFloat64(f) == nil {
		panic("smt: non-finite float constant")
	}
	return tb.RatC(r)
}
func (tb *Table) StrC(s string) *Term {
	return tb.mk(&Term{Op: "const", Sort: Str, S: s}, "cs"+s)
}
func (tb *Table) BoolC(b bool) *Term {
	if b {
		return tb.True
	}
	return tb.False
}

func (t *Term) IsConst() bool { return t.Op == "const" }

// ---- boolean ----

func (tb *Table) Not(a *Term) *Term {
	if a.IsConst() {
		return tb.BoolC(!a.B)
	}
	if a.Op == "not" {
		return a.Args[0]
	}
	return tb.app("not", Bool, a)
}

func (tb *Table) And(as ...*Term) *Term {
	var out []*Term
	seen := map[int]bool{}
	for _, a := range as {
		if a.IsConst() {
			if !a.B {
				return tb.False
			}
			continue
		}
		if a.Op == "and" {
			for _, b := range a.Args {
				if !seen[b.ID] {
					seen[b.ID] = true
					out = append(out, b)
				}
			}
			continue
		}
		if !seen[a.ID] {
			seen[a.ID] = true
			out = append(out, a)
		}
	}
	for _, a := range out {
		if a.Op == "not" && seen[a.Args[0].ID] {
			return tb.False
		}
	}
	switch len(out) {
	case 0:
		return tb.True
	case 1:
		return out[0]
	}
	return tb.app("and", Bool, out...)
}

func (tb *Table) Or(as ...*Term) *Term {
	var out []*Term
	seen := map[int]bool{}
	for _, a := range as {
		if a.IsConst() {
			if a.B {
				return tb.True
			}
			continue
		}
		if a.Op == "or" {
			for _, b := range a.Args {
				if !seen[b.ID] {
					seen[b.ID] = true
					out = append(out, b)
				}
			}
			continue
		}
		if !seen[a.ID] {
			seen[a.ID] = true
			out = append(out, a)
		}
	}
	for _, a := range out {
		if a.Op == "not" && seen[a.Args[0].ID] {
			return tb.True
		}
	}
	switch len(out) {
	case 0:
		return tb.False
	case 1:
		return out[0]
	}
	return tb.app("or", Bool, out...)
}

func (tb *Table) Implies(a, b *Term) *Term { return tb.Or(tb.Not(a), b) }

func (tb *Table) Ite(c, a, b *Term) *Term {
	if c.IsConst() {
		if c.B {
			return a
		}
		return b
	}
	if a == b {
		return a
	}
	if a.Sort == Bool {
		if a.IsConst() && b.IsConst() {
			if a.B {
				return c
			}
			return tb.Not(c)
		}
		if a.IsConst() {
			if a.B {
				return tb.Or(c, b)
			}
			return tb.And(tb.Not(c), b)
		}
		if b.IsConst() {
			if b.B {
				return tb.Or(tb.Not(c), a)
			}
			return tb.And(c, a)
		}
	}
	return tb.app("ite", a.Sort, c, a, b)
}

func (tb *Table) Eq(a, b *Term) *Term {
	if a == b {
		return tb.True
	}
	if a.Sort != b.Sort {
		if a.Sort == Int && b.Sort == Real {
			a = tb.ToReal(a)
		} else if a.Sort == Real && b.Sort == Int {
			b = tb.ToReal(b)
		} else {
			panic(fmt.Sprintf("smt.Eq: sort mismatch %v %v", a.Sort, b.Sort))
		}
	}
	if a.IsConst() && b.IsConst() {
		return tb.BoolC(constEq(a, b))
	}
	// equality with a constant distributes over ite (joined values): keeps strings out of the query
	if _, isItoa := tb.ItoaArg(a); a.Op == "ite" && b.IsConst() && !isItoa {
		return tb.Ite(a.Args[0], tb.Eq(a.Args[1], b), tb.Eq(a.Args[2], b))
	}
	if _, isItoa := tb.ItoaArg(b); b.Op == "ite" && a.IsConst() && !isItoa {
		return tb.Ite(b.Args[0], tb.Eq(b.Args[1], a), tb.Eq(b.Args[2], a))
	}
	if a.Sort == Str {
		if a.Op == "ite" && b.Op == "ite" && iteConstLeaves(a) && iteConstLeaves(b) {
			return tb.Ite(a.Args[0], tb.Eq(a.Args[1], b), tb.Eq(a.Args[2], b))
		}
		// signed decimal renderings: injective, never empty, equal to a constant only if it is canonical
		ka, oka := tb.ItoaArg(a)
		kb, okb := tb.ItoaArg(b)
		switch {
		case oka && okb:
			return tb.Eq(ka, kb)
		case oka && b.IsConst():
			if n, ok := canonicalDecimal(b.S); ok {
				return tb.Eq(ka, tb.BigC(n))
			}
			return tb.False
		case okb && a.IsConst():
			if n, ok := canonicalDecimal(a.S); ok {
				return tb.Eq(kb, tb.BigC(n))
			}
			return tb.False
		}
	}
	if a.Sort == Bool {
		if a.IsConst() {
			if a.B {
				return b
			}
			return tb.Not(b)
		}
		if b.IsConst() {
			if b.B {
				return a
			}
			return tb.Not(a)
		}
	}
	if a.ID > b.ID {
		a, b = b, a
	}
	return tb.app("=", Bool, a, b)
}

func iteConstLeaves(t *Term) bool {
	if t.Op == "ite" {
		return iteConstLeaves(t.Args[1]) && iteConstLeaves(t.Args[2])
	}
	return t.IsConst()
}

func constEq(a, b *Term) bool {
	switch a.Sort {
	case Bool:
		return a.B == b.B
	case Int:
		return a.I.Cmp(b.I) == 0
	case Real:
		return a.R.Cmp(b.R) == 0
	}
	return a.S == b.S
}

// ---- arithmetic ----

func (tb *Table) ToReal(a *Term) *Term {
	if a.Sort == Real {
		return a
	}
	if a.IsConst() {
		return tb.RatC(new(big.Rat).SetInt(a.I))
	}
	return tb.app("to_real", Real, a)
}

// ToInt is floor.
func (tb *Table) ToInt(a *Term) *Term {
	if a.Sort == Int {
		return a
	}
	if a.IsConst() {
		f := new(big.Int).Div(a.R.Num(), a.R.Denom()) // Euclidean: floor for positive denom
		return tb.BigC(f)
	}
	if a.Op == "to_real" {
		return a.Args[0]
	}
	return tb.app("to_int", Int, a)
}

func (tb *Table) coerce(a, b *Term) (*Term, *Term, Sort) {
	if a.Sort == b.Sort {
		return a, b, a.Sort
	}
	return tb.ToReal(a), tb.ToReal(b), Real
}

func (tb *Table) Add(a, b *Term) *Term {
	a, b, s := tb.coerce(a, b)
	if a.IsConst() && b.IsConst() {
		if s == Int {
			return tb.BigC(new(big.Int).Add(a.I, b.I))
		}
		return tb.RatC(new(big.Rat).Add(a.R, b.R))
	}
	if isZero(a) {
		return b
	}
	if isZero(b) {
		return a
	}
	// (x + c1) + c2
	if s == Int && b.IsConst() && a.Op == "+" && len(a.Args) == 2 && a.Args[1].IsConst() {
		return tb.Add(a.Args[0], tb.BigC(new(big.Int).Add(a.Args[1].I, b.I)))
	}
	if a.IsConst() && !b.IsConst() {
		a, b = b, a
	}
	return tb.app("+", s, a, b)
}

func (tb *Table) Sub(a, b *Term) *Term {
	a, b, s := tb.coerce(a, b)
	if a == b {
		if s == Int {
			return tb.IntC(0)
		}
		return tb.RatC(new(big.Rat))
	}
	if b.IsConst() {
		if s == Int {
			return tb.Add(a, tb.BigC(new(big.Int).Neg(b.I)))
		}
		return tb.Add(a, tb.RatC(new(big.Rat).Neg(b.R)))
	}
	return tb.app("-", s, a, b)
}

func (tb *Table) Neg(a *Term) *Term {
	if a.Sort == Int {
		return tb.Sub(tb.IntC(0), a)
	}
	return tb.Sub(tb.RatC(new(big.Rat)), a)
}

func (tb *Table) Mul(a, b *Term) *Term {
	a, b, s := tb.coerce(a, b)
	if a.IsConst() && b.IsConst() {
		if s == Int {
			return tb.BigC(new(big.Int).Mul(a.I, b.I))
		}
		return tb.RatC(new(big.Rat).Mul(a.R, b.R))
	}
	if isZero(a) || isZero(b) {
		if s == Int {
			return tb.IntC(0)
		}
		return tb.RatC(new(big.Rat))
	}
	if isOne(a) {
		return b
	}
	if isOne(b) {
		return a
	}
	if a.IsConst() && !b.IsConst() {
		a, b = b, a
	}
	return tb.app("*", s, a, b)
}

// RDiv is real division.
func (tb *Table) RDiv(a, b *Term) *Term {
	a, b = tb.ToReal(a), tb.ToReal(b)
	if b.IsConst() && b.R.Sign() != 0 {
		if a.IsConst() {
			return tb.RatC(new(big.Rat).Quo(a.R, b.R))
		}
		return tb.Mul(a, tb.RatC(new(big.Rat).Inv(b.R)))
	}
	return tb.app("/", Real, a, b)
}

// IDiv / IMod are SMT-LIB (Euclidean) div and mod.
func (tb *Table) IDiv(a, b *Term) *Term {
	if a.IsConst() && b.IsConst() && b.I.Sign() != 0 {
		q, _ := new(big.Int).DivMod(a.I, b.I, new(big.Int))
		return tb.BigC(q)
	}
	return tb.app("div", Int, a, b)
}
func (tb *Table) IMod(a, b *Term) *Term {
	if a.IsConst() && b.IsConst() && b.I.Sign() != 0 {
		_, m := new(big.Int).DivMod(a.I, b.I, new(big.Int))
		return tb.BigC(m)
	}
	return tb.app("mod", Int, a, b)
}

func isZero(a *Term) bool {
	if !a.IsConst() {
		return false
	}
	if a.Sort == Int {
		return a.I.Sign() == 0
	}
	return a.Sort == Real && a.R.Sign() == 0
}
func isOne(a *Term) bool {
	if !a.IsConst() {
		return false
	}
	if a.Sort == Int {
		return a.I.Cmp(big.NewInt(1)) == 0
	}
	return a.Sort == Real && a.R.Cmp(big.NewRat(1, 1)) == 0
}

func (tb *Table) cmp(op string, a, b *Term) *Term {
	if a.Sort == Str {
		if a.IsConst() && b.IsConst() {
			switch op {
			case "<":
				return tb.BoolC(a.S < b.S)
			case "<=":
				return tb.BoolC(a.S <= b.S)
			}
		}
		if op == "<" {
			return tb.app("str.<", Bool, a, b)
		}
		return tb.app("str.<=", Bool, a, b)
	}
	a, b, s := tb.coerce(a, b)
	if a.IsConst() && b.IsConst() {
		var c int
		if s == Int {
			c = a.I.Cmp(b.I)
		} else {
			c = a.R.Cmp(b.R)
		}
		if op == "<" {
			return tb.BoolC(c < 0)
		}
		return tb.BoolC(c <= 0)
	}
	if a == b {
		return tb.BoolC(op == "<=")
	}
	return tb.app(op, Bool, a, b)
}
func (tb *Table) Lt(a, b *Term) *Term { return tb.cmp("<", a, b) }
func (tb *Table) Le(a, b *Term) *Term { return tb.cmp("<=", a, b) }
func (tb *Table) Gt(a, b *Term) *Term { return tb.cmp("<", b, a) }
func (tb *Table) Ge(a, b *Term) *Term { return tb.cmp("<=", b, a) }

// Abs for Int/Real.
func (tb *Table) Abs(a *Term) *Term {
	var z *Term
	if a.Sort == Int {
		z = tb.IntC(0)
	} else {
		z = tb.RatC(new(big.Rat))
	}
	return tb.Ite(tb.Ge(a, z), a, tb.Neg(a))
}

// ---- strings ----

func (tb *Table) Concat(as ...*Term) *Term {
	var out []*Term
	for _, a := range as {
		parts := []*Term{a}
		if a.Op == "str.++" {
			parts = a.Args
		}
		for _, p := range parts {
			if p.IsConst() && p.S == "" {
				continue
			}
			if n := len(out); n > 0 && out[n-1].IsConst() && p.IsConst() {
				out[n-1] = tb.StrC(out[n-1].S + p.S)
				continue
			}
			out = append(out, p)
		}
	}
	switch len(out) {
	case 0:
		return tb.StrC("")
	case 1:
		return out[0]
	}
	return tb.app("str.++", Str, out...)
}

// MarkUnit records that the string term t has length exactly 1.
func (tb *Table) MarkUnit(t *Term) {
	if tb.unit == nil {
		tb.unit = map[*Term]bool{}
	}
	tb.unit[t] = true
}

// IsUnit: t is a single symbolic character.
func (tb *Table) IsUnit(t *Term) bool { return tb.unit[t] }

// Pieces flattens a string term into constant strings and single symbolic characters; ok is
// false if the term contains anything else.
func (tb *Table) Pieces(t *Term) (out []*Term, ok bool) {
	switch {
	case t.IsConst():
		return []*Term{t}, true
	case tb.unit[t]:
		return []*Term{t}, true
	case t.Op == "str.++":
		for _, a := range t.Args {
			p, ok := tb.Pieces(a)
			if !ok {
				return nil, false
			}
			out = append(out, p...)
		}
		return out, true
	}
	return nil, false
}

func (tb *Table) StrLen(a *Term) *Term {
	if a.IsConst() {
		return tb.IntC(int64(len(a.S)))
	}
	if tb.unit[a] {
		return tb.IntC(1)
	}
	if a.Op == "str.++" {
		r := tb.IntC(0)
		for _, p := range a.Args {
			r = tb.Add(r, tb.StrLen(p))
		}
		return r
	}
	return tb.app("str.len", Int, a)
}

func (tb *Table) StrFromInt(a *Term) *Term {
	if a.IsConst() {
		if a.I.Sign() < 0 {
			return tb.StrC("")
		}
		return tb.StrC(a.I.String())
	}
	return tb.app("str.from_int", Str, a)
}

// Itoa is the signed decimal rendering of an Int term (strconv.Itoa, %d, %.0f).
func (tb *Table) Itoa(k *Term) *Term {
	if k.IsConst() {
		return tb.StrC(k.I.String())
	}
	return tb.Ite(tb.Lt(k, tb.IntC(0)), tb.Concat(tb.StrC("-"), tb.StrFromInt(tb.Neg(k))), tb.StrFromInt(k))
}

// ItoaArg recognises Itoa(k) terms.
func (tb *Table) ItoaArg(s *Term) (*Term, bool) {
	if s.Op == "ite" && s.Args[2].Op == "str.from_int" {
		k := s.Args[2].Args[0]
		if !k.IsConst() && s == tb.Itoa(k) {
			return k, true
		}
	}
	return nil, false
}

func canonicalDecimal(s string) (*big.Int, bool) {
	d := s
	if strings.HasPrefix(d, "-") {
		d = d[1:]
		if d == "0" {
			return nil, false
		}
	}
	if d == "" || (len(d) > 1 && d[0] == '0') {
		return nil, false
	}
	for i := 0; i < len(d); i++ {
		if d[i] < '0' || d[i] > '9' {
			return nil, false
		}
	}
	n, ok := new(big.Int).SetString(s, 10)
	return n, ok
}

func (tb *Table) StrToInt(a *Term) *Term {
	if a.IsConst() {
		if a.S == "" {
			return tb.IntC(-1)
		}
		for i := 0; i < len(a.S); i++ {
			if a.S[i] < '0' || a.S[i] > '9' {
				return tb.IntC(-1)
			}
		}
		n, _ := new(big.Int).SetString(a.S, 10)
		return tb.BigC(n)
	}
	return tb.app("str.to_int", Int, a)
}

func (tb *Table) PrefixOf(p, s *Term) *Term {
	if p.IsConst() && s.IsConst() {
		return tb.BoolC(strings.HasPrefix(s.S, p.S))
	}
	if p.IsConst() && p.S == "" {
		return tb.True
	}
	if p.IsConst() && s.Op == "str.++" && s.Args[0].IsConst() {
		h := s.Args[0].S
		if len(h) >= len(p.S) {
			return tb.BoolC(strings.HasPrefix(h, p.S))
		}
		if !strings.HasPrefix(p.S, h) {
			return tb.False
		}
	}
	return tb.app("str.prefixof", Bool, p, s)
}
func (tb *Table) SuffixOf(p, s *Term) *Term {
	if p.IsConst() && s.IsConst() {
		return tb.BoolC(strings.HasSuffix(s.S, p.S))
	}
	if p.IsConst() && p.S == "" {
		return tb.True
	}
	if p.IsConst() && s.Op == "str.++" && s.Args[len(s.Args)-1].IsConst() {
		h := s.Args[len(s.Args)-1].S
		if len(h) >= len(p.S) {
			return tb.BoolC(strings.HasSuffix(h, p.S))
		}
		if !strings.HasSuffix(p.S, h) {
			return tb.False
		}
	}
	return tb.app("str.suffixof", Bool, p, s)
}
func (tb *Table) Contains(s, sub *Term) *Term {
	if s.IsConst() && sub.IsConst() {
		return tb.BoolC(strings.Contains(s.S, sub.S))
	}
	if sub.IsConst() && sub.S == "" {
		return tb.True
	}
	if sub.IsConst() && s.Op == "str.++" {
		for _, p := range s.Args {
			if p.IsConst() && strings.Contains(p.S, sub.S) {
				return tb.True
			}
		}
	}
	if s == sub {
		return tb.True
	}
	return tb.app("str.contains", Bool, s, sub)
}
func (tb *Table) IndexOf(s, sub, from *Term) *Term {
	if s.IsConst() && sub.IsConst() && from.IsConst() && from.I.IsInt64() {
		f := int(from.I.Int64())
		if f < 0 || f > len(s.S) {
			return tb.IntC(-1)
		}
		i := strings.Index(s.S[f:], sub.S)
		if i < 0 {
			return tb.IntC(-1)
		}
		return tb.IntC(int64(i + f))
	}
	return tb.app("str.indexof", Int, s, sub, from)
}
func (tb *Table) Substr(s, off, n *Term) *Term {
	if s.IsConst() && off.IsConst() && n.IsConst() && off.I.IsInt64() && n.I.IsInt64() {
		o, l := off.I.Int64(), n.I.Int64()
		if o < 0 || o >= int64(len(s.S)) || l <= 0 {
			return tb.StrC("")
		}
		if o+l > int64(len(s.S)) {
			l = int64(len(s.S)) - o
		}
		return tb.StrC(s.S[o : o+l])
	}
	if off.IsConst() && n.IsConst() && off.I.IsInt64() && n.I.IsInt64() && (s.Op == "str.++" || tb.unit[s]) {
		if ps, ok := tb.Pieces(s); ok {
			o, l := off.I.Int64(), n.I.Int64()
			if o < 0 || l <= 0 {
				return tb.StrC("")
			}
			var res []*Term
			pos := int64(0)
			for _, p := range ps {
				pl := int64(1)
				if p.IsConst() {
					pl = int64(len(p.S))
				}
				lo, hi := o, o+l // wanted range
				a, b := pos, pos+pl
				if hi > a && lo < b {
					if p.IsConst() {
						ca, cb := lo-a, hi-a
						if ca < 0 {
							ca = 0
						}
						if cb > pl {
							cb = pl
						}
						res = append(res, tb.StrC(p.S[ca:cb]))
					} else {
						res = append(res, p)
					}
				}
				pos = b
			}
			return tb.Concat(res...)
		}
	}
	return tb.app("str.substr", Str, s, off, n)
}
func (tb *Table) StrAt(s, i *Term) *Term { return tb.Substr(s, i, tb.IntC(1)) }
func (tb *Table) ToCode(s *Term) *Term {
	if s.IsConst() {
		if len(s.S) != 1 {
			return tb.IntC(-1)
		}
		return tb.IntC(int64(s.S[0]))
	}
	return tb.app("str.to_code", Int, s)
}
func (tb *Table) FromCode(i *Term) *Term {
	if i.Op == "str.to_code" && len(i.Args) == 1 && tb.unit[i.Args[0]] {
		return i.Args[0] // from_code(to_code(c)) = c for a single character c
	}
	if i.IsConst() && i.I.IsInt64() && i.I.Int64() >= 0 && i.I.Int64() < 256 {
		return tb.StrC(string([]byte{byte(i.I.Int64())}))
	}
	return tb.app("str.from_code", Str, i)
}
func (tb *Table) Replace(s, old, new *Term) *Term {
	if s.IsConst() && old.IsConst() && new.IsConst() {
		return tb.StrC(strings.Replace(s.S, old.S, new.S, 1))
	}
	return tb.app("str.replace", Str, s, old, new)
}
func (tb *Table) ReplaceAll(s, old, new *Term) *Term {
	if s.IsConst() && old.IsConst() && new.IsConst() && old.S != "" {
		return tb.StrC(strings.ReplaceAll(s.S, old.S, new.S))
	}
	return tb.app("str.replace_all", Str, s, old, new)
}

// InRe: membership in a regular expression given as raw SMT-LIB text.
func (tb *Table) InRe(s *Term, re string) *Term {
	return tb.mk(&Term{Op: "str.in_re", Sort: Bool, Args: []*Term{s}, S: re}, "inre "+strconv.Itoa(s.ID)+" "+re)
}

// ---- printing ----

func quoteSMT(s string) string {
	var sb strings.Builder
	sb.WriteByte('"')
	for i := 0; i < len(s); i++ {
		c := s[i]
		switch {
		case c == '"':
			sb.WriteString(`""`)
		case c == '\\':
			sb.WriteString(`\u{5c}`)
		case c >= 0x20 && c < 0x7f:
			sb.WriteByte(c)
		default:
			fmt.Fprintf(&sb, `\u{%x}`, c)
		}
	}
	sb.WriteByte('"')
	return sb.String()
}

func intLit(i *big.Int) string {
	if i.Sign() < 0 {
		return "(- " + new(big.Int).Neg(i).String() + ")"
	}
	return i.String()
}

func ratLit(r *big.Rat) string {
	num, den := r.Num(), r.Denom()
	var s string
	if den.Cmp(big.NewInt(1)) == 0 {
		s = new(big.Int).Abs(num).String() + ".0"
	} else {
		s = "(/ " + new(big.Int).Abs(num).String() + ".0 " + den.String() + ".0)"
	}
	if num.Sign() < 0 {
		return "(- " + s + ")"
	}
	return s
}

// Printer serialises a set of terms, sharing non-leaf subterms through
// define-fun so DAGs stay linear in size.
type Printer struct {
	sb      strings.Builder
	done    map[int]bool
	Vars    []*Term
	varSeen map[int]bool
}

func NewPrinter() *Printer { return &Printer{done: map[int]bool{}, varSeen: map[int]bool{}} }

func (p *Printer) ref(t *Term) string {
	switch t.Op {
	case "var":
		return t.Name
	case "const":
		switch t.Sort {
		case Bool:
			if t.B {
				return "true"
			}
			return "false"
		case Int:
			return intLit(t.I)
		case Real:
			return ratLit(t.R)
		}
		return quoteSMT(t.S)
	}
	return "t" + strconv.Itoa(t.ID)
}

func (p *Printer) define(t *Term) {
	if t.Op == "const" {
		return
	}
	if p.done[t.ID] {
		return
	}
	p.done[t.ID] = true
	if t.Op == "var" {
		if !p.varSeen[t.ID] {
			p.varSeen[t.ID] = true
			p.Vars = append(p.Vars, t)
			fmt.Fprintf(&p.sb, "(declare-const %s %s)\n", t.Name, t.Sort)
		}
		return
	}
	for _, a := range t.Args {
		p.define(a)
	}
	fmt.Fprintf(&p.sb, "(define-fun t%d () %s (%s", t.ID, t.Sort, t.Op)
	for _, a := range t.Args {
		p.sb.WriteByte(' ')
		p.sb.WriteString(p.ref(a))
	}
	if t.Op == "str.in_re" {
		p.sb.WriteByte(' ')
		p.sb.WriteString(t.S)
	}
	p.sb.WriteString("))\n")
}

// Assert adds (assert t).
func (p *Printer) Assert(t *Term) {
	p.define(t)
	fmt.Fprintf(&p.sb, "(assert %s)\n", p.ref(t))
}

func (p *Printer) String() string { return p.sb.String() }

// SortedVars returns the declared variables sorted by name.
func (p *Printer) SortedVars() []*Term {
	vs := append([]*Term(nil), p.Vars...)
	sort.Slice(vs, func(i, j int) bool { return vs[i].Name < vs[j].Name })
	return vs
}

// Render prints a term as a plain (unshared) s-expression, for diagnostics.
func Render(t *Term) string {
	switch t.Op {
	case "var":
		return t.Name
	case "const":
		switch t.Sort {
		case Bool:
			return strconv.FormatBool(t.B)
		case Int:
			return intLit(t.I)
		case Real:
			return ratLit(t.R)
		}
		return quoteSMT(t.S)
	}
	var sb strings.Builder
	sb.WriteString("(" + t.Op)
	for _, a := range t.Args {
		sb.WriteByte(' ')
		if sb.Len() > 4000 {
			sb.WriteString("...")
			break
		}
		sb.WriteString(Render(a))
	}
	if t.Op == "str.in_re" {
		sb.WriteString(" " + t.S)
	}
	sb.WriteByte(')')
	return sb.String()
}
