package symx

import "strings"

// pureExternal: stubs that have no effect outside interpreter-visible memory
// (their stores go through onStore) and may therefore run inside a speculative arm.
func pureExternal(name string) bool {
	if strings.HasPrefix(name, wz) {
		return true // logging no-ops
	}
	switch name {
	case "fmt.Errorf", "fmt.Sscanf", "bytes.Equal", "bytes.NewReader", "strings.NewReader", "encoding/xml.NewDecoder", "log.New", "time.Now", "(time.Time).Format", "(time.Time).IsZero",
		"encoding/xml.Marshal", "encoding/xml.MarshalIndent",
		"(encoding/xml.StartElement).End", "(encoding/xml.StartElement).Copy":
		return true
	}
	for _, p := range []string{"(*sync.", "(*log.Logger).", "log.", "(*strings.Builder)."} {
		if strings.HasPrefix(name, p) {
			return true
		}
	}
	return false
}
