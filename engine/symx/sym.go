package symx

// Symbolic scalars: a sym is an SMT term tagged with the Go basic kind it
// stands for. Integers are SMT Ints with exact two's-complement wrap-around,
// floats are SMT Reals (rounding is modelled by bounded error variables, see
// float ops), strings are SMT Strings (one SMT character per byte).

import (
	"fmt"
	"go/token"
	"go/types"
	"math"
	"math/big"

	"gosx/smt"
)

type sym struct {
	k types.BasicKind
	t *smt.Term
}

func (s sym) String() string { return fmt.Sprintf("sym<%s>", smt.Render(s.t)) }

func isSym(v value) bool { _, ok := v.(sym); return ok }

func kindOf(v value) types.BasicKind {
	switch v := v.(type) {
	case sym:
		return v.k
	case bool:
		return types.Bool
	case int:
		return types.Int
	case int8:
		return types.Int8
	case int16:
		return types.Int16
	case int32:
		return types.Int32
	case int64:
		return types.Int64
	case uint:
		return types.Uint
	case uint8:
		return types.Uint8
	case uint16:
		return types.Uint16
	case uint32:
		return types.Uint32
	case uint64:
		return types.Uint64
	case uintptr:
		return types.Uintptr
	case float32:
		return types.Float32
	case float64:
		return types.Float64
	case string:
		return types.String
	}
	return types.Invalid
}

func kindBits(k types.BasicKind) (bits uint, signed bool) {
	switch k {
	case types.Int, types.Int64:
		return 64, true
	case types.Int8:
		return 8, true
	case types.Int16:
		return 16, true
	case types.Int32:
		return 32, true
	case types.Uint, types.Uint64, types.Uintptr:
		return 64, false
	case types.Uint8:
		return 8, false
	case types.Uint16:
		return 16, false
	case types.Uint32:
		return 32, false
	}
	return 0, false
}

func isIntKind(k types.BasicKind) bool   { b, _ := kindBits(k); return b != 0 }
func isFloatKind(k types.BasicKind) bool { return k == types.Float32 || k == types.Float64 }

func basicKind(t types.Type) types.BasicKind {
	if b, ok := t.Underlying().(*types.Basic); ok {
		k := b.Kind()
		switch k {
		case types.UntypedInt:
			return types.Int
		case types.UntypedFloat:
			return types.Float64
		case types.UntypedRune:
			return types.Int32
		case types.UntypedString:
			return types.String
		case types.UntypedBool:
			return types.Bool
		}
		return k
	}
	return types.Invalid
}

// term lifts a concrete or symbolic scalar to an SMT term.
func (x *exec) term(v value) *smt.Term {
	tb := x.tb
	switch v := v.(type) {
	case sym:
		return v.t
	case bool:
		return tb.BoolC(v)
	case int:
		return tb.IntC(int64(v))
	case int8:
		return tb.IntC(int64(v))
	case int16:
		return tb.IntC(int64(v))
	case int32:
		return tb.IntC(int64(v))
	case int64:
		return tb.IntC(v)
	case uint:
		return tb.BigC(new(big.Int).SetUint64(uint64(v)))
	case uint8:
		return tb.IntC(int64(v))
	case uint16:
		return tb.IntC(int64(v))
	case uint32:
		return tb.IntC(int64(v))
	case uint64:
		return tb.BigC(new(big.Int).SetUint64(v))
	case uintptr:
		return tb.BigC(new(big.Int).SetUint64(uint64(v)))
	case float32:
		return x.floatC(float64(v))
	case float64:
		return x.floatC(v)
	case string:
		return tb.StrC(v)
	}
	panic(fmt.Sprintf("term: cannot lift %T", v))
}

func (x *exec) floatC(f float64) *smt.Term {
	if math.IsNaN(f) || math.IsInf(f, 0) {
		x.abandon("non-finite float constant mixed with symbolic value")
	}
	return x.tb.FloatC(f)
}

// mkSym wraps a term; constants are turned back into concrete values.
func (x *exec) mkSym(k types.BasicKind, t *smt.Term) value {
	if t.IsConst() {
		return concreteOf(k, t)
	}
	return sym{k, t}
}

func concreteOf(k types.BasicKind, t *smt.Term) value {
	switch t.Sort {
	case smt.Bool:
		return t.B
	case smt.Str:
		return t.S
	case smt.Int:
		if isFloatKind(k) {
			f, _ := new(big.Float).SetInt(t.I).Float64()
			if k == types.Float32 {
				return float32(f)
			}
			return f
		}
		var i64 int64
		var u64 uint64
		if t.I.IsInt64() {
			i64 = t.I.Int64()
			u64 = uint64(i64)
		} else if t.I.IsUint64() {
			u64 = t.I.Uint64()
			i64 = int64(u64)
		} else {
			panic("concreteOf: integer constant out of 64-bit range: " + t.I.String())
		}
		switch k {
		case types.Int:
			return int(i64)
		case types.Int8:
			return int8(i64)
		case types.Int16:
			return int16(i64)
		case types.Int32:
			return int32(i64)
		case types.Int64:
			return i64
		case types.Uint:
			return uint(u64)
		case types.Uint8:
			return uint8(u64)
		case types.Uint16:
			return uint16(u64)
		case types.Uint32:
			return uint32(u64)
		case types.Uint64:
			return u64
		case types.Uintptr:
			return uintptr(u64)
		}
	case smt.Real:
		f, _ := t.R.Float64()
		if k == types.Float32 {
			return float32(f)
		}
		return f
	}
	panic(fmt.Sprintf("concreteOf: kind %v sort %v", k, t.Sort))
}

var two = big.NewInt(2)

func pow2(n uint) *big.Int { return new(big.Int).Exp(two, big.NewInt(int64(n)), nil) }

// wrap reduces an Int term into the range of kind k (two's complement).
// oneStep: the value is known to lie within one modulus of the range (add/sub
// of two in-range values), so an ite suffices.
func (x *exec) wrap(k types.BasicKind, t *smt.Term, oneStep bool) *smt.Term {
	bits, signed := kindBits(k)
	if bits == 0 {
		return t
	}
	tb := x.tb
	mod := pow2(bits)
	var lo, hi *big.Int
	if signed {
		lo = new(big.Int).Neg(pow2(bits - 1))
		hi = new(big.Int).Sub(pow2(bits-1), big.NewInt(1))
	} else {
		lo = big.NewInt(0)
		hi = new(big.Int).Sub(mod, big.NewInt(1))
	}
	if t.IsConst() {
		v := new(big.Int).Sub(t.I, lo)
		v.Mod(v, mod)
		v.Add(v, lo)
		return tb.BigC(v)
	}
	if oneStep {
		return tb.Ite(tb.Gt(t, tb.BigC(hi)), tb.Sub(t, tb.BigC(mod)),
			tb.Ite(tb.Lt(t, tb.BigC(lo)), tb.Add(t, tb.BigC(mod)), t))
	}
	// ((t - lo) mod 2^n) + lo
	return tb.Add(tb.IMod(tb.Sub(t, tb.BigC(lo)), tb.BigC(mod)), tb.BigC(lo))
}

// symBinop evaluates x op y where at least one side is symbolic.
func (x *exec) symBinop(op token.Token, t types.Type, a, b value) value {
	tb := x.tb
	k := kindOf(a)
	if k == types.Invalid {
		k = kindOf(b)
	}
	// shifts: the count has its own kind
	if op == token.SHL || op == token.SHR {
		if isSym(b) {
			b = x.concretize(b, "shift count")
		}
		n := asShift(b)
		if op == token.SHL {
			return x.mkSym(k, x.wrap(k, tb.Mul(x.term(a), tb.BigC(pow2(n))), false))
		}
		return x.mkSym(k, tb.IDiv(x.term(a), tb.BigC(pow2(n)))) // floor div == arithmetic shift
	}
	ta, tc := x.term(a), x.term(b)
	switch {
	case k == types.Bool:
		switch op {
		case token.EQL:
			return x.mkSym(types.Bool, tb.Eq(ta, tc))
		case token.NEQ:
			return x.mkSym(types.Bool, tb.Not(tb.Eq(ta, tc)))
		case token.AND, token.LAND:
			return x.mkSym(types.Bool, tb.And(ta, tc))
		case token.OR, token.LOR:
			return x.mkSym(types.Bool, tb.Or(ta, tc))
		}
	case k == types.String:
		switch op {
		case token.ADD:
			return x.mkSym(types.String, tb.Concat(ta, tc))
		case token.EQL:
			return x.mkSym(types.Bool, tb.Eq(ta, tc))
		case token.NEQ:
			return x.mkSym(types.Bool, tb.Not(tb.Eq(ta, tc)))
		case token.LSS:
			return x.mkSym(types.Bool, tb.Lt(ta, tc))
		case token.LEQ:
			return x.mkSym(types.Bool, tb.Le(ta, tc))
		case token.GTR:
			return x.mkSym(types.Bool, tb.Lt(tc, ta))
		case token.GEQ:
			return x.mkSym(types.Bool, tb.Le(tc, ta))
		}
	case isIntKind(k):
		switch op {
		case token.ADD:
			return x.mkSym(k, x.wrap(k, tb.Add(ta, tc), true))
		case token.SUB:
			return x.mkSym(k, x.wrap(k, tb.Sub(ta, tc), true))
		case token.MUL:
			return x.mkSym(k, x.wrap(k, tb.Mul(ta, tc), false))
		case token.QUO, token.REM:
			zero := tb.IntC(0)
			x.obligation(tb.Not(tb.Eq(tc, zero)), "panic: integer divide by zero", true)
			// Go truncates toward zero; SMT div is Euclidean (floor for positive divisor).
			// q = sign * (|a| div |b|)
			absA, absB := tb.Abs(ta), tb.Abs(tc)
			q := tb.IDiv(absA, absB)
			neg := tb.Not(tb.Eq(tb.Lt(ta, zero), tb.Lt(tc, zero)))
			sq := tb.Ite(neg, tb.Neg(q), q)
			if op == token.QUO {
				return x.mkSym(k, x.wrap(k, sq, true))
			}
			return x.mkSym(k, tb.Sub(ta, tb.Mul(sq, tc)))
		case token.EQL:
			return x.mkSym(types.Bool, tb.Eq(ta, tc))
		case token.NEQ:
			return x.mkSym(types.Bool, tb.Not(tb.Eq(ta, tc)))
		case token.LSS:
			return x.mkSym(types.Bool, tb.Lt(ta, tc))
		case token.LEQ:
			return x.mkSym(types.Bool, tb.Le(ta, tc))
		case token.GTR:
			return x.mkSym(types.Bool, tb.Lt(tc, ta))
		case token.GEQ:
			return x.mkSym(types.Bool, tb.Le(tc, ta))
		case token.AND, token.OR, token.XOR, token.AND_NOT:
			// bit operations on symbolic ints: concretise (rare in this code base)
			ca := x.concretize(a, "bit-operation operand")
			cb := x.concretize(b, "bit-operation operand")
			return binop(x, op, t, ca, cb)
		}
	case isFloatKind(k):
		switch op {
		case token.ADD:
			return x.mkSym(k, x.round(tb.Add(ta, tc)))
		case token.SUB:
			return x.mkSym(k, x.round(tb.Sub(ta, tc)))
		case token.MUL:
			return x.mkSym(k, x.round(tb.Mul(ta, tc)))
		case token.QUO:
			x.obligation(tb.Not(tb.Eq(tc, tb.FloatC(0))), "float: division by zero (Inf/NaN are outside the float model)", true)
			return x.mkSym(k, x.round(tb.RDiv(ta, tc)))
		case token.EQL:
			return x.mkSym(types.Bool, tb.Eq(ta, tc))
		case token.NEQ:
			return x.mkSym(types.Bool, tb.Not(tb.Eq(ta, tc)))
		case token.LSS:
			return x.mkSym(types.Bool, tb.Lt(ta, tc))
		case token.LEQ:
			return x.mkSym(types.Bool, tb.Le(ta, tc))
		case token.GTR:
			return x.mkSym(types.Bool, tb.Lt(tc, ta))
		case token.GEQ:
			return x.mkSym(types.Bool, tb.Le(tc, ta))
		}
	}
	x.abandon(fmt.Sprintf("unsupported symbolic binop %v on kind %v", op, k))
	return nil
}

func asShift(v value) uint {
	switch v := v.(type) {
	case int:
		return uint(v)
	case int8:
		return uint(v)
	case int16:
		return uint(v)
	case int32:
		return uint(v)
	case int64:
		return uint(v)
	}
	return uint(asUint64(v))
}

// round models one IEEE rounding step on a real-valued exact result r:
// the result is r + e with |e| <= 2^(mag-52), under the obligation |r| <= 2^mag.
// Results that are exactly representable small integers are not perturbed
// when the term is a constant.
func (x *exec) round(r *smt.Term) *smt.Term {
	if r.IsConst() {
		f, _ := r.R.Float64()
		return x.tb.FloatC(f)
	}
	tb := x.tb
	// rounding is a function: the same exact value rounds to the same float
	if x.roundMemo == nil {
		x.roundMemo = map[*smt.Term]*smt.Term{}
	}
	if m, ok := x.roundMemo[r]; ok {
		return m
	}
	mag := x.floatMag
	bound := new(big.Rat).SetInt(pow2(mag))
	x.obligation(tb.Le(tb.Abs(r), tb.RatC(bound)), fmt.Sprintf("float: |value| <= 2^%d (magnitude bound of the float model)", mag), true)
	e := x.fresh("fe", smt.Real)
	eb := new(big.Rat).SetFrac(big.NewInt(1), pow2(52-mag))
	x.assume(tb.And(tb.Le(tb.RatC(new(big.Rat).Neg(eb)), e), tb.Le(e, tb.RatC(eb))))
	if x.floatRel {
		// additionally the relative bound of round-to-nearest: |e| <= 2^-52*|r| + 2^-1000
		// (half an ulp is <= 2^-53*|r| for normal results and <= 2^-1075 for subnormal ones)
		rel := new(big.Rat).SetFrac(big.NewInt(1), pow2(52))
		tiny := new(big.Rat).SetFrac(big.NewInt(1), pow2(1000))
		x.assume(tb.Le(tb.Abs(e), tb.Add(tb.Mul(tb.RatC(rel), tb.Abs(r)), tb.RatC(tiny))))
	}
	x.floatErrVars++
	res := tb.Add(r, e)
	if x.spec == 0 {
		x.roundMemo[r] = res
	}
	return res
}

// symConv converts symbolic scalar v to the basic kind dst.
func (x *exec) symConv(dst types.BasicKind, v sym) value {
	tb := x.tb
	src := v.k
	switch {
	case isIntKind(src) && isIntKind(dst):
		sb, ss := kindBits(src)
		db, ds := kindBits(dst)
		if ss == ds && db >= sb || (!ss && ds && db > sb) {
			return sym{dst, v.t} // value-preserving
		}
		return x.mkSym(dst, x.wrap(dst, v.t, sb <= db+0 && db == sb))
	case isIntKind(src) && isFloatKind(dst):
		return sym{dst, tb.ToReal(v.t)} // exact for |v| < 2^53; larger values are outside the float model
	case isFloatKind(src) && isIntKind(dst):
		// truncation toward zero
		z := tb.FloatC(0)
		tr := tb.Ite(tb.Ge(v.t, z), tb.ToInt(v.t), tb.Neg(tb.ToInt(tb.Neg(v.t))))
		lim := new(big.Rat).SetInt(pow2(62))
		x.obligation(tb.Le(tb.Abs(v.t), tb.RatC(lim)), "float->int conversion within 2^62", true)
		if db, _ := kindBits(dst); db == 64 {
			return x.mkSym(dst, tr) // |v| <= 2^62 holds from here on, so no wrap-around
		}
		return x.mkSym(dst, x.wrap(dst, tr, false))
	case isFloatKind(src) && isFloatKind(dst):
		return sym{dst, v.t}
	case src == types.String && dst == types.String:
		return v
	}
	x.abandon(fmt.Sprintf("unsupported symbolic conversion %v -> %v", src, dst))
	return nil
}
