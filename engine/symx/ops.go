// Copyright 2013 The Go Authors. All rights reserved.
// Use of this source code is governed by a BSD-style
// license that can be found in the LICENSE file.

package symx

import (
	"bytes"
	"fmt"
	"go/constant"
	"go/token"
	"go/types"
	"gosx/smt"
	"os"
	"strings"
	"unsafe"

	"golang.org/x/tools/go/ssa"
)

// If the target program panics, the interpreter panics with this type.
type targetPanic struct {
	v value
}

func (p targetPanic) String() string {
	return toString(p.v)
}

// If the target program calls exit, the interpreter panics with this type.
type exitPanic int

// constValue returns the value of the constant with the
// dynamic type tag appropriate for c.Type().
func constValue(c *ssa.Const) value {
	if c.Value == nil {
		return zero(c.Type()) // typed zero
	}
	// c is not a type parameter so it's underlying type is basic.

	if t, ok := c.Type().Underlying().(*types.Basic); ok {
		// TODO(adonovan): eliminate untyped constants from SSA form.
		switch t.Kind() {
		case types.Bool, types.UntypedBool:
			return constant.BoolVal(c.Value)
		case types.Int, types.UntypedInt:
			// Assume sizeof(int) is same on host and target.
			return int(c.Int64())
		case types.Int8:
			return int8(c.Int64())
		case types.Int16:
			return int16(c.Int64())
		case types.Int32, types.UntypedRune:
			return int32(c.Int64())
		case types.Int64:
			return c.Int64()
		case types.Uint:
			// Assume sizeof(uint) is same on host and target.
			return uint(c.Uint64())
		case types.Uint8:
			return uint8(c.Uint64())
		case types.Uint16:
			return uint16(c.Uint64())
		case types.Uint32:
			return uint32(c.Uint64())
		case types.Uint64:
			return c.Uint64()
		case types.Uintptr:
			// Assume sizeof(uintptr) is same on host and target.
			return uintptr(c.Uint64())
		case types.Float32:
			return float32(c.Float64())
		case types.Float64, types.UntypedFloat:
			return c.Float64()
		case types.Complex64:
			return complex64(c.Complex128())
		case types.Complex128, types.UntypedComplex:
			return c.Complex128()
		case types.String, types.UntypedString:
			if c.Value.Kind() == constant.String {
				return constant.StringVal(c.Value)
			}
			return string(rune(c.Int64()))
		}
	}

	panic(fmt.Sprintf("constValue: %s", c))
}

// fitsInt returns true if x fits in type int according to sizes.
func fitsInt(x int64, sizes types.Sizes) bool {
	intSize := sizes.Sizeof(types.Typ[types.Int])
	if intSize < sizes.Sizeof(types.Typ[types.Int64]) {
		maxInt := int64(1)<<((intSize*8)-1) - 1
		minInt := -int64(1) << ((intSize * 8) - 1)
		return minInt <= x && x <= maxInt
	}
	return true
}

// asInt64 converts x, which must be an integer, to an int64.
//
// Callers that need a value directly usable as an int should combine this with fitsInt().
func asInt64(x value) int64 {
	switch x := x.(type) {
	case int:
		return int64(x)
	case int8:
		return int64(x)
	case int16:
		return int64(x)
	case int32:
		return int64(x)
	case int64:
		return x
	case uint:
		return int64(x)
	case uint8:
		return int64(x)
	case uint16:
		return int64(x)
	case uint32:
		return int64(x)
	case uint64:
		return int64(x)
	case uintptr:
		return int64(x)
	}
	panic(fmt.Sprintf("cannot convert %T to int64", x))
}

// asUint64 converts x, which must be an unsigned integer, to a uint64
// suitable for use as a bitwise shift count.
func asUint64(x value) uint64 {
	switch x := x.(type) {
	case uint:
		return uint64(x)
	case uint8:
		return uint64(x)
	case uint16:
		return uint64(x)
	case uint32:
		return uint64(x)
	case uint64:
		return x
	case uintptr:
		return uint64(x)
	}
	panic(fmt.Sprintf("cannot convert %T to uint64", x))
}

// asUnsigned returns the value of x, which must be an integer type, as its equivalent unsigned type,
// and returns true if x is non-negative.
func asUnsigned(x value) (value, bool) {
	switch x := x.(type) {
	case int:
		return uint(x), x >= 0
	case int8:
		return uint8(x), x >= 0
	case int16:
		return uint16(x), x >= 0
	case int32:
		return uint32(x), x >= 0
	case int64:
		return uint64(x), x >= 0
	case uint, uint8, uint32, uint64, uintptr:
		return x, true
	}
	panic(fmt.Sprintf("cannot convert %T to unsigned", x))
}

// zero returns a new "zero" value of the specified type.
func zero(t types.Type) value {
	switch t := t.(type) {
	case *types.Basic:
		if t.Kind() == types.UntypedNil {
			panic("untyped nil has no zero value")
		}
		if t.Info()&types.IsUntyped != 0 {
			// TODO(adonovan): make it an invariant that
			// this is unreachable.  Currently some
			// constants have 'untyped' types when they
			// should be defaulted by the typechecker.
			t = types.Default(t).(*types.Basic)
		}
		switch t.Kind() {
		case types.Bool:
			return false
		case types.Int:
			return int(0)
		case types.Int8:
			return int8(0)
		case types.Int16:
			return int16(0)
		case types.Int32:
			return int32(0)
		case types.Int64:
			return int64(0)
		case types.Uint:
			return uint(0)
		case types.Uint8:
			return uint8(0)
		case types.Uint16:
			return uint16(0)
		case types.Uint32:
			return uint32(0)
		case types.Uint64:
			return uint64(0)
		case types.Uintptr:
			return uintptr(0)
		case types.Float32:
			return float32(0)
		case types.Float64:
			return float64(0)
		case types.Complex64:
			return complex64(0)
		case types.Complex128:
			return complex128(0)
		case types.String:
			return ""
		case types.UnsafePointer:
			return unsafe.Pointer(nil)
		default:
			panic(fmt.Sprint("zero for unexpected type:", t))
		}
	case *types.Pointer:
		return (*value)(nil)
	case *types.Array:
		a := make(array, t.Len())
		for i := range a {
			a[i] = zero(t.Elem())
		}
		return a
	case *types.Named:
		return zero(t.Underlying())
	case *types.Alias:
		return zero(types.Unalias(t))
	case *types.Interface:
		return iface{} // nil type, methodset and value
	case *types.Slice:
		return []value(nil)
	case *types.Struct:
		s := make(structure, t.NumFields())
		for i := range s {
			s[i] = zero(t.Field(i).Type())
		}
		return s
	case *types.Tuple:
		if t.Len() == 1 {
			return zero(t.At(0).Type())
		}
		s := make(tuple, t.Len())
		for i := range s {
			s[i] = zero(t.At(i).Type())
		}
		return s
	case *types.Chan:
		return chan value(nil)
	case *types.Map:
		return (*omap)(nil)
	case *types.Signature:
		return (*ssa.Function)(nil)
	}
	panic(fmt.Sprint("zero: unexpected ", t))
}

// slice returns x[lo:hi:max].  Any of lo, hi and max may be nil.
func slice(ex *exec, x, lo, hi, max value) value {
	if b, ok := x.(*blob); ok {
		// Marshal output / archive bytes: only the whole-slice forms b[:], b[:len(b)],
		// b[:len(b):len(b)], b[0:...] are modelled (the same bytes)
		full := func(v value) bool {
			if v == nil {
				return true
			}
			sv, isSym := v.(sym)
			return isSym && b.lenVar != nil && sv.t == b.lenVar
		}
		zero := func(v value) bool {
			if v == nil {
				return true
			}
			n, isInt := v.(int)
			return isInt && n == 0
		}
		if zero(lo) && full(hi) && full(max) {
			return b
		}
		ex.abandon("slicing of an XML blob / archive other than the whole slice")
	}
	if sx, ok := x.(sym); ok {
		return ex.strSlice(sx, lo, hi)
	}
	if xs, ok := x.(string); ok && (isSym(lo) || isSym(hi)) {
		return ex.strSlice(sym{types.String, ex.tb.StrC(xs)}, lo, hi)
	}
	var Len, Cap int
	switch x := x.(type) {
	case string:
		Len = len(x)
	case []value:
		Len = len(x)
		Cap = cap(x)
	case *value: // *array
		a := (*x).(array)
		Len = len(a)
		Cap = cap(a)
	}
	if _, isStr := x.(string); isStr {
		Cap = Len
	}
	// Go checks 0 <= lo <= hi <= max <= cap.
	if isSym(lo) || isSym(hi) || isSym(max) {
		tb := ex.tb
		tl, th, tm := tb.IntC(0), tb.IntC(int64(Len)), tb.IntC(int64(Cap))
		if lo != nil {
			tl = ex.term(lo)
		}
		if hi != nil {
			th = ex.term(hi)
		}
		if max != nil {
			tm = ex.term(max)
		}
		ok := tb.And(tb.Le(tb.IntC(0), tl), tb.Le(tl, th), tb.Le(th, tm), tb.Le(tm, tb.IntC(int64(Cap))))
		ex.obligation(ok, "panic: slice bounds out of range", true)
		if lo != nil {
			lo = ex.concretize(lo, "slice low bound")
		}
		if hi != nil {
			hi = ex.concretize(hi, "slice high bound")
		}
		if max != nil {
			max = ex.concretize(max, "slice max bound")
		}
	}

	l := int64(0)
	if lo != nil {
		l = asInt64(lo)
	}

	h := int64(Len)
	if hi != nil {
		h = asInt64(hi)
	}

	m := int64(Cap)
	if max != nil {
		m = asInt64(max)
	}

	switch x := x.(type) {
	case string:
		return x[l:h]
	case []value:
		return x[l:h:m]
	case *value: // *array
		a := (*x).(array)
		return []value(a)[l:h:m]
	}
	panic(fmt.Sprintf("slice: unexpected X type: %T", x))
}

// lookup returns x[idx] where x is a map.
func lookup(ex *exec, instr *ssa.Lookup, x, idx value) value {
	m, isMap := x.(*omap)
	if !isMap {
		panic(fmt.Sprintf("unexpected x type in Lookup: %T", x))
	}
	v, ok := m.lookup(ex, idx)
	if !ok {
		v = zero(instr.X.Type().Underlying().(*types.Map).Elem())
	}
	if instr.CommaOk {
		v = tuple{v, ok}
	}
	return v
}

// binop implements all arithmetic and logical binary operators for
// numeric datatypes and strings.  Both operands must have identical
// dynamic type.
func binop(ex *exec, op token.Token, t types.Type, x, y value) value {
	if isSym(x) || isSym(y) {
		return ex.symBinop(op, t, x, y)
	}
	switch op {
	case token.ADD:
		switch x.(type) {
		case int:
			return x.(int) + y.(int)
		case int8:
			return x.(int8) + y.(int8)
		case int16:
			return x.(int16) + y.(int16)
		case int32:
			return x.(int32) + y.(int32)
		case int64:
			return x.(int64) + y.(int64)
		case uint:
			return x.(uint) + y.(uint)
		case uint8:
			return x.(uint8) + y.(uint8)
		case uint16:
			return x.(uint16) + y.(uint16)
		case uint32:
			return x.(uint32) + y.(uint32)
		case uint64:
			return x.(uint64) + y.(uint64)
		case uintptr:
			return x.(uintptr) + y.(uintptr)
		case float32:
			return x.(float32) + y.(float32)
		case float64:
			return x.(float64) + y.(float64)
		case complex64:
			return x.(complex64) + y.(complex64)
		case complex128:
			return x.(complex128) + y.(complex128)
		case string:
			return x.(string) + y.(string)
		}

	case token.SUB:
		switch x.(type) {
		case int:
			return x.(int) - y.(int)
		case int8:
			return x.(int8) - y.(int8)
		case int16:
			return x.(int16) - y.(int16)
		case int32:
			return x.(int32) - y.(int32)
		case int64:
			return x.(int64) - y.(int64)
		case uint:
			return x.(uint) - y.(uint)
		case uint8:
			return x.(uint8) - y.(uint8)
		case uint16:
			return x.(uint16) - y.(uint16)
		case uint32:
			return x.(uint32) - y.(uint32)
		case uint64:
			return x.(uint64) - y.(uint64)
		case uintptr:
			return x.(uintptr) - y.(uintptr)
		case float32:
			return x.(float32) - y.(float32)
		case float64:
			return x.(float64) - y.(float64)
		case complex64:
			return x.(complex64) - y.(complex64)
		case complex128:
			return x.(complex128) - y.(complex128)
		}

	case token.MUL:
		switch x.(type) {
		case int:
			return x.(int) * y.(int)
		case int8:
			return x.(int8) * y.(int8)
		case int16:
			return x.(int16) * y.(int16)
		case int32:
			return x.(int32) * y.(int32)
		case int64:
			return x.(int64) * y.(int64)
		case uint:
			return x.(uint) * y.(uint)
		case uint8:
			return x.(uint8) * y.(uint8)
		case uint16:
			return x.(uint16) * y.(uint16)
		case uint32:
			return x.(uint32) * y.(uint32)
		case uint64:
			return x.(uint64) * y.(uint64)
		case uintptr:
			return x.(uintptr) * y.(uintptr)
		case float32:
			return x.(float32) * y.(float32)
		case float64:
			return x.(float64) * y.(float64)
		case complex64:
			return x.(complex64) * y.(complex64)
		case complex128:
			return x.(complex128) * y.(complex128)
		}

	case token.QUO:
		switch x.(type) {
		case int:
			return x.(int) / y.(int)
		case int8:
			return x.(int8) / y.(int8)
		case int16:
			return x.(int16) / y.(int16)
		case int32:
			return x.(int32) / y.(int32)
		case int64:
			return x.(int64) / y.(int64)
		case uint:
			return x.(uint) / y.(uint)
		case uint8:
			return x.(uint8) / y.(uint8)
		case uint16:
			return x.(uint16) / y.(uint16)
		case uint32:
			return x.(uint32) / y.(uint32)
		case uint64:
			return x.(uint64) / y.(uint64)
		case uintptr:
			return x.(uintptr) / y.(uintptr)
		case float32:
			return x.(float32) / y.(float32)
		case float64:
			return x.(float64) / y.(float64)
		case complex64:
			return x.(complex64) / y.(complex64)
		case complex128:
			return x.(complex128) / y.(complex128)
		}

	case token.REM:
		switch x.(type) {
		case int:
			return x.(int) % y.(int)
		case int8:
			return x.(int8) % y.(int8)
		case int16:
			return x.(int16) % y.(int16)
		case int32:
			return x.(int32) % y.(int32)
		case int64:
			return x.(int64) % y.(int64)
		case uint:
			return x.(uint) % y.(uint)
		case uint8:
			return x.(uint8) % y.(uint8)
		case uint16:
			return x.(uint16) % y.(uint16)
		case uint32:
			return x.(uint32) % y.(uint32)
		case uint64:
			return x.(uint64) % y.(uint64)
		case uintptr:
			return x.(uintptr) % y.(uintptr)
		}

	case token.AND:
		switch x.(type) {
		case int:
			return x.(int) & y.(int)
		case int8:
			return x.(int8) & y.(int8)
		case int16:
			return x.(int16) & y.(int16)
		case int32:
			return x.(int32) & y.(int32)
		case int64:
			return x.(int64) & y.(int64)
		case uint:
			return x.(uint) & y.(uint)
		case uint8:
			return x.(uint8) & y.(uint8)
		case uint16:
			return x.(uint16) & y.(uint16)
		case uint32:
			return x.(uint32) & y.(uint32)
		case uint64:
			return x.(uint64) & y.(uint64)
		case uintptr:
			return x.(uintptr) & y.(uintptr)
		}

	case token.OR:
		switch x.(type) {
		case int:
			return x.(int) | y.(int)
		case int8:
			return x.(int8) | y.(int8)
		case int16:
			return x.(int16) | y.(int16)
		case int32:
			return x.(int32) | y.(int32)
		case int64:
			return x.(int64) | y.(int64)
		case uint:
			return x.(uint) | y.(uint)
		case uint8:
			return x.(uint8) | y.(uint8)
		case uint16:
			return x.(uint16) | y.(uint16)
		case uint32:
			return x.(uint32) | y.(uint32)
		case uint64:
			return x.(uint64) | y.(uint64)
		case uintptr:
			return x.(uintptr) | y.(uintptr)
		}

	case token.XOR:
		switch x.(type) {
		case int:
			return x.(int) ^ y.(int)
		case int8:
			return x.(int8) ^ y.(int8)
		case int16:
			return x.(int16) ^ y.(int16)
		case int32:
			return x.(int32) ^ y.(int32)
		case int64:
			return x.(int64) ^ y.(int64)
		case uint:
			return x.(uint) ^ y.(uint)
		case uint8:
			return x.(uint8) ^ y.(uint8)
		case uint16:
			return x.(uint16) ^ y.(uint16)
		case uint32:
			return x.(uint32) ^ y.(uint32)
		case uint64:
			return x.(uint64) ^ y.(uint64)
		case uintptr:
			return x.(uintptr) ^ y.(uintptr)
		}

	case token.AND_NOT:
		switch x.(type) {
		case int:
			return x.(int) &^ y.(int)
		case int8:
			return x.(int8) &^ y.(int8)
		case int16:
			return x.(int16) &^ y.(int16)
		case int32:
			return x.(int32) &^ y.(int32)
		case int64:
			return x.(int64) &^ y.(int64)
		case uint:
			return x.(uint) &^ y.(uint)
		case uint8:
			return x.(uint8) &^ y.(uint8)
		case uint16:
			return x.(uint16) &^ y.(uint16)
		case uint32:
			return x.(uint32) &^ y.(uint32)
		case uint64:
			return x.(uint64) &^ y.(uint64)
		case uintptr:
			return x.(uintptr) &^ y.(uintptr)
		}

	case token.SHL:
		u, ok := asUnsigned(y)
		if !ok {
			panic("negative shift amount")
		}
		y := asUint64(u)
		switch x.(type) {
		case int:
			return x.(int) << y
		case int8:
			return x.(int8) << y
		case int16:
			return x.(int16) << y
		case int32:
			return x.(int32) << y
		case int64:
			return x.(int64) << y
		case uint:
			return x.(uint) << y
		case uint8:
			return x.(uint8) << y
		case uint16:
			return x.(uint16) << y
		case uint32:
			return x.(uint32) << y
		case uint64:
			return x.(uint64) << y
		case uintptr:
			return x.(uintptr) << y
		}

	case token.SHR:
		u, ok := asUnsigned(y)
		if !ok {
			panic("negative shift amount")
		}
		y := asUint64(u)
		switch x.(type) {
		case int:
			return x.(int) >> y
		case int8:
			return x.(int8) >> y
		case int16:
			return x.(int16) >> y
		case int32:
			return x.(int32) >> y
		case int64:
			return x.(int64) >> y
		case uint:
			return x.(uint) >> y
		case uint8:
			return x.(uint8) >> y
		case uint16:
			return x.(uint16) >> y
		case uint32:
			return x.(uint32) >> y
		case uint64:
			return x.(uint64) >> y
		case uintptr:
			return x.(uintptr) >> y
		}

	case token.LSS:
		switch x.(type) {
		case int:
			return x.(int) < y.(int)
		case int8:
			return x.(int8) < y.(int8)
		case int16:
			return x.(int16) < y.(int16)
		case int32:
			return x.(int32) < y.(int32)
		case int64:
			return x.(int64) < y.(int64)
		case uint:
			return x.(uint) < y.(uint)
		case uint8:
			return x.(uint8) < y.(uint8)
		case uint16:
			return x.(uint16) < y.(uint16)
		case uint32:
			return x.(uint32) < y.(uint32)
		case uint64:
			return x.(uint64) < y.(uint64)
		case uintptr:
			return x.(uintptr) < y.(uintptr)
		case float32:
			return x.(float32) < y.(float32)
		case float64:
			return x.(float64) < y.(float64)
		case string:
			return x.(string) < y.(string)
		}

	case token.LEQ:
		switch x.(type) {
		case int:
			return x.(int) <= y.(int)
		case int8:
			return x.(int8) <= y.(int8)
		case int16:
			return x.(int16) <= y.(int16)
		case int32:
			return x.(int32) <= y.(int32)
		case int64:
			return x.(int64) <= y.(int64)
		case uint:
			return x.(uint) <= y.(uint)
		case uint8:
			return x.(uint8) <= y.(uint8)
		case uint16:
			return x.(uint16) <= y.(uint16)
		case uint32:
			return x.(uint32) <= y.(uint32)
		case uint64:
			return x.(uint64) <= y.(uint64)
		case uintptr:
			return x.(uintptr) <= y.(uintptr)
		case float32:
			return x.(float32) <= y.(float32)
		case float64:
			return x.(float64) <= y.(float64)
		case string:
			return x.(string) <= y.(string)
		}

	case token.EQL:
		return eqnil(ex, t, x, y)

	case token.NEQ:
		return ex.not(eqnil(ex, t, x, y))

	case token.GTR:
		switch x.(type) {
		case int:
			return x.(int) > y.(int)
		case int8:
			return x.(int8) > y.(int8)
		case int16:
			return x.(int16) > y.(int16)
		case int32:
			return x.(int32) > y.(int32)
		case int64:
			return x.(int64) > y.(int64)
		case uint:
			return x.(uint) > y.(uint)
		case uint8:
			return x.(uint8) > y.(uint8)
		case uint16:
			return x.(uint16) > y.(uint16)
		case uint32:
			return x.(uint32) > y.(uint32)
		case uint64:
			return x.(uint64) > y.(uint64)
		case uintptr:
			return x.(uintptr) > y.(uintptr)
		case float32:
			return x.(float32) > y.(float32)
		case float64:
			return x.(float64) > y.(float64)
		case string:
			return x.(string) > y.(string)
		}

	case token.GEQ:
		switch x.(type) {
		case int:
			return x.(int) >= y.(int)
		case int8:
			return x.(int8) >= y.(int8)
		case int16:
			return x.(int16) >= y.(int16)
		case int32:
			return x.(int32) >= y.(int32)
		case int64:
			return x.(int64) >= y.(int64)
		case uint:
			return x.(uint) >= y.(uint)
		case uint8:
			return x.(uint8) >= y.(uint8)
		case uint16:
			return x.(uint16) >= y.(uint16)
		case uint32:
			return x.(uint32) >= y.(uint32)
		case uint64:
			return x.(uint64) >= y.(uint64)
		case uintptr:
			return x.(uintptr) >= y.(uintptr)
		case float32:
			return x.(float32) >= y.(float32)
		case float64:
			return x.(float64) >= y.(float64)
		case string:
			return x.(string) >= y.(string)
		}
	}
	panic(fmt.Sprintf("invalid binary op: %T %s %T", x, op, y))
}

// eqnil returns the comparison x == y using the equivalence relation
// appropriate for type t (a bool, or a symbolic Bool).
func eqnil(ex *exec, t types.Type, x, y value) value {
	switch t.Underlying().(type) {
	case *types.Map, *types.Signature, *types.Slice:
		// Since these types don't support comparison,
		// one of the operands must be a literal nil.
		switch x := x.(type) {
		case *omap:
			return (x != nil) == (y.(*omap) != nil)
		case *ssa.Function:
			switch y := y.(type) {
			case *ssa.Function:
				return (x != nil) == (y != nil)
			case *closure:
				return true
			}
		case *closure:
			return (x != nil) == (y.(*ssa.Function) != nil)
		case []value:
			switch y := y.(type) {
			case []value:
				return (x != nil) == (y != nil)
			default:
				return x != nil // y is a non-nil blob/symBytes, so x is the nil literal
			}
		case *blob, symBytes:
			ys, ok := y.([]value)
			return ok && ys != nil
		}
		panic(fmt.Sprintf("eqnil(%s): illegal dynamic type: %T", t, x))
	}

	return ex.equals(t, x, y)
}

func unop(fr *frame, instr *ssa.UnOp, x value) value {
	ex := fr.i.x
	if sx, ok := x.(sym); ok {
		switch instr.Op {
		case token.NOT:
			return ex.mkSym(types.Bool, ex.tb.Not(sx.t))
		case token.SUB:
			if isFloatKind(sx.k) {
				return ex.mkSym(sx.k, ex.tb.Neg(sx.t))
			}
			return ex.mkSym(sx.k, ex.wrap(sx.k, ex.tb.Neg(sx.t), true))
		}
		ex.abandon(fmt.Sprintf("unsupported symbolic unary op %s", instr.Op))
	}
	switch instr.Op {
	case token.ARROW: // receive
		ex.abandon("channel receive (channels are not modelled)")
		return nil
	case token.SUB:
		switch x := x.(type) {
		case int:
			return -x
		case int8:
			return -x
		case int16:
			return -x
		case int32:
			return -x
		case int64:
			return -x
		case uint:
			return -x
		case uint8:
			return -x
		case uint16:
			return -x
		case uint32:
			return -x
		case uint64:
			return -x
		case uintptr:
			return -x
		case float32:
			return -x
		case float64:
			return -x
		case complex64:
			return -x
		case complex128:
			return -x
		}
	case token.MUL:
		p := x.(*value)
		if p == nil {
			panic("runtime error: invalid memory address or nil pointer dereference")
		}
		ex.onLoad(p)
		return load(mustDeref(instr.X.Type()), p)
	case token.NOT:
		return !x.(bool)
	case token.XOR:
		switch x := x.(type) {
		case int:
			return ^x
		case int8:
			return ^x
		case int16:
			return ^x
		case int32:
			return ^x
		case int64:
			return ^x
		case uint:
			return ^x
		case uint8:
			return ^x
		case uint16:
			return ^x
		case uint32:
			return ^x
		case uint64:
			return ^x
		case uintptr:
			return ^x
		}
	}
	panic(fmt.Sprintf("invalid unary op %s %T", instr.Op, x))
}

// typeAssert checks whether dynamic type of itf is instr.AssertedType.
// It returns the extracted value on success, and panics on failure,
// unless instr.CommaOk, in which case it always returns a "value,ok" tuple.
func typeAssert(i *interpreter, instr *ssa.TypeAssert, itf iface) value {
	var v value
	err := ""
	if itf.t == nil {
		err = fmt.Sprintf("interface conversion: interface is nil, not %s", instr.AssertedType)

	} else if idst, ok := instr.AssertedType.Underlying().(*types.Interface); ok {
		v = itf
		err = checkInterface(i, idst, itf)

	} else if types.Identical(itf.t, instr.AssertedType) {
		v = itf.v // extract value

	} else {
		err = fmt.Sprintf("interface conversion: interface is %s, not %s", itf.t, instr.AssertedType)
	}
	// Note: if instr.Underlying==true ever becomes reachable from interp check that
	// types.Identical(itf.t.Underlying(), instr.AssertedType)

	if err != "" {
		if !instr.CommaOk {
			panic(err)
		}
		return tuple{zero(instr.AssertedType), false}
	}
	if instr.CommaOk {
		return tuple{v, true}
	}
	return v
}

// This variable is no longer used but remains to prevent build breakage.
var CapturedOutput *bytes.Buffer

// callBuiltin interprets a call to builtin fn with arguments args,
// returning its result.
func callBuiltin(caller *frame, callpos token.Pos, fn *ssa.Builtin, args []value) value {
	switch fn.Name() {
	case "append":
		if len(args) == 1 {
			return args[0]
		}
		ex := caller.i.x
		if b, ok := args[1].(*blob); ok {
			pre, ok := args[0].([]value)
			if !ok {
				ex.abandon("append(blob, blob...)")
			}
			var bs []byte
			for _, e := range pre {
				c, ok := e.(uint8)
				if !ok {
					ex.abandon("append(symbolic bytes, blob...)")
				}
				bs = append(bs, c)
			}
			nb := *b
			nb.prefix = string(bs) + b.prefix
			nb.lenVar, nb.strVar = nil, nil
			nb.tokens = nil // the cached stream (if any) lacks the prefix
			ex.nblob++
			nb.id = ex.nblob
			return &nb
		}
		if _, ok := args[0].(*blob); ok {
			ex.abandon("append to an XML blob")
		}
		arg0 := args[0].([]value)
		var src []value
		switch a1 := args[1].(type) {
		case string:
			// append([]byte, ...string) []byte
			for i := 0; i < len(a1); i++ {
				src = append(src, a1[i])
			}
		case sym:
			// a semi-symbolic string: one byte per character
			cs, ok := ex.semiOf(a1)
			if !ok {
				ex.abandon("append([]byte, symbolic string...)")
			}
			for _, c := range cs {
				if c.t == nil {
					src = append(src, c.c)
				} else {
					src = append(src, sym{types.Uint8, ex.tb.ToCode(c.t)})
				}
			}
		case []value:
			src = make([]value, len(a1))
			for i := range a1 {
				src[i] = copyVal(a1[i]) // snapshot first: memmove semantics for overlapping slices
			}
		}
		if len(src) == 0 {
			return arg0
		}
		if len(arg0)+len(src) <= cap(arg0) {
			n := len(arg0)
			arg0 = arg0[:n+len(src)]
			for i := range src {
				ex.onStore(&arg0[n+i])
				arg0[n+i] = src[i]
			}
			return arg0
		}
		// grow like the Go runtime does for this element type
		st := fn.Type().(*types.Signature).Params().At(0).Type().Underlying().(*types.Slice)
		newCap := growCap(caller.i.sizes.Sizeof(st.Elem()), cap(arg0), len(arg0)+len(src))
		res := make([]value, len(arg0)+len(src), newCap)
		for i := range arg0 {
			res[i] = copyVal(arg0[i])
		}
		copy(res[len(arg0):], src)
		zt := st.Elem()
		spare := res[len(res):cap(res)]
		for i := range spare {
			spare[i] = zero(zt)
		}
		ex.markFreshSlice(res)
		return res

	case "copy": // copy([]T, []T) int or copy([]byte, string) int
		src := norm(args[1])
		if bb, ok := args[0].(*byteBuf); ok {
			ex := caller.i.x
			var n *smt.Term
			switch sv := src.(type) {
			case *blob:
				n = ex.term(ex.blobLen(sv))
				nb := *sv
				ex.nblob++
				nb.id = ex.nblob
				src = &nb
			case symBytes:
				n = ex.tb.StrLen(sv.t)
			default:
				ex.abandon("copy into a buffer of symbolic length from concrete bytes")
			}
			if n != bb.n {
				ex.abandon("copy into a buffer whose symbolic length is not the length of the source")
			}
			bb.content = src
			return sym{types.Int, n}
		}
		if _, ok := src.(string); ok {
			params := fn.Type().(*types.Signature).Params()
			src = conv(caller.i.x, params.At(0).Type(), params.At(1).Type(), src)
		}
		if isSym(src) {
			caller.i.x.abandon("copy([]byte, symbolic string)")
		}
		dst := args[0].([]value)
		s2 := src.([]value)
		n := len(dst)
		if len(s2) < n {
			n = len(s2)
		}
		tmp := make([]value, n)
		for i := 0; i < n; i++ {
			tmp[i] = copyVal(s2[i])
		}
		for i := 0; i < n; i++ {
			caller.i.x.onStore(&dst[i])
			dst[i] = tmp[i]
		}
		return n

	case "close": // close(chan T)
		close(args[0].(chan value))
		return nil

	case "delete": // delete(map[K]value, K)
		if m := args[0].(*omap); m != nil {
			caller.i.x.specMapWrite(m)
			caller.i.x.frozenMapWrite(m)
			m.delete(caller.i.x, args[1])
		}
		return nil

	case "print", "println": // print(any, ...)
		ln := fn.Name() == "println"
		var buf bytes.Buffer
		for i, arg := range args {
			if i > 0 && ln {
				buf.WriteRune(' ')
			}
			buf.WriteString(toString(arg))
		}
		if ln {
			buf.WriteRune('\n')
		}
		os.Stderr.Write(buf.Bytes())
		return nil

	case "len":
		if bb, ok := args[0].(*byteBuf); ok && bb.content == nil {
			return sym{types.Int, bb.n}
		}
		switch x := norm(args[0]).(type) {
		case string:
			return len(x)
		case sym:
			return caller.i.x.mkSym(types.Int, caller.i.x.tb.StrLen(x.t))
		case symBytes:
			return caller.i.x.mkSym(types.Int, caller.i.x.tb.StrLen(x.t))
		case *blob:
			return caller.i.x.blobLen(x)
		case array:
			return len(x)
		case *value:
			return len((*x).(array))
		case []value:
			return len(x)
		case *omap:
			return x.len()
		case chan value:
			return len(x)
		default:
			panic(fmt.Sprintf("len: illegal operand: %T", x))
		}

	case "cap":
		switch x := args[0].(type) {
		case array:
			return cap(x)
		case *value:
			return cap((*x).(array))
		case []value:
			return cap(x)
		case chan value:
			return cap(x)
		default:
			panic(fmt.Sprintf("cap: illegal operand: %T", x))
		}

	case "min":
		return foldLeft(caller.i.x.min, args)
	case "max":
		return foldLeft(caller.i.x.max, args)

	case "real":
		switch c := args[0].(type) {
		case complex64:
			return real(c)
		case complex128:
			return real(c)
		default:
			panic(fmt.Sprintf("real: illegal operand: %T", c))
		}

	case "imag":
		switch c := args[0].(type) {
		case complex64:
			return imag(c)
		case complex128:
			return imag(c)
		default:
			panic(fmt.Sprintf("imag: illegal operand: %T", c))
		}

	case "complex":
		switch f := args[0].(type) {
		case float32:
			return complex(f, args[1].(float32))
		case float64:
			return complex(f, args[1].(float64))
		default:
			panic(fmt.Sprintf("complex: illegal operand: %T", f))
		}

	case "panic":
		// ssa.Panic handles most cases; this is only for "go
		// panic" or "defer panic".
		panic(targetPanic{args[0]})

	case "recover":
		return doRecover(caller)

	case "ssa:wrapnilchk":
		recv := args[0]
		if recv.(*value) == nil {
			recvType := args[1]
			methodName := args[2]
			panic(fmt.Sprintf("value method (%s).%s called using nil *%s pointer",
				recvType, methodName, recvType))
		}
		return recv

	case "ssa:deferstack":
		return &caller.defers
	}

	panic("unknown built-in: " + fn.Name())
}

func rangeIter(ex *exec, x value, t types.Type) iter {
	switch x := x.(type) {
	case *omap:
		return x.iter()
	case string:
		return &stringIter{Reader: strings.NewReader(x)}
	case sym:
		ex.abandon("range over a symbolic string")
	}
	panic(fmt.Sprintf("cannot range over %T", x))
}

// widen widens a basic typed value x to the widest type of its
// category, one of:
//
//	bool, int64, uint64, float64, complex128, string.
//
// This is inefficient but reduces the size of the cross-product of
// cases we have to consider.
func widen(x value) value {
	switch y := x.(type) {
	case bool, int64, uint64, float64, complex128, string, unsafe.Pointer:
		return x
	case int:
		return int64(y)
	case int8:
		return int64(y)
	case int16:
		return int64(y)
	case int32:
		return int64(y)
	case uint:
		return uint64(y)
	case uint8:
		return uint64(y)
	case uint16:
		return uint64(y)
	case uint32:
		return uint64(y)
	case uintptr:
		return uint64(y)
	case float32:
		return float64(y)
	case complex64:
		return complex128(y)
	}
	panic(fmt.Sprintf("cannot widen %T", x))
}

// conv converts the value x of type t_src to type t_dst and returns
// the result.
// Possible cases are described with the ssa.Convert operator.
func conv(ex *exec, t_dst, t_src types.Type, x value) value {
	ut_src := t_src.Underlying()
	ut_dst := t_dst.Underlying()
	if sx, ok := x.(sym); ok {
		if bd, ok := ut_dst.(*types.Basic); ok {
			return ex.symConv(basicKind(bd), sx)
		}
		if sl, ok := ut_dst.(*types.Slice); ok && sx.k == types.String {
			if b, ok := sl.Elem().Underlying().(*types.Basic); ok && b.Kind() == types.Byte {
				return symBytes{sx.t}
			}
		}
		ex.abandon(fmt.Sprintf("unsupported conversion of symbolic %v to %v", sx.k, t_dst))
	}
	x = norm(x)
	if b, ok := x.(*blob); ok {
		if bd, ok := ut_dst.(*types.Basic); ok && bd.Kind() == types.String {
			return ex.blobString(b)
		}
		ex.abandon("unsupported conversion of an XML blob")
	}
	if sb, ok := x.(symBytes); ok {
		if bd, ok := ut_dst.(*types.Basic); ok && bd.Kind() == types.String {
			return ex.mkSym(types.String, sb.t)
		}
		ex.abandon("unsupported conversion of symbolic []byte")
	}

	// Destination type is not an "untyped" type.
	if b, ok := ut_dst.(*types.Basic); ok && b.Info()&types.IsUntyped != 0 {
		panic("oops: conversion to 'untyped' type: " + b.String())
	}

	// Nor is it an interface type.
	if _, ok := ut_dst.(*types.Interface); ok {
		if _, ok := ut_src.(*types.Interface); ok {
			panic("oops: Convert should be ChangeInterface")
		} else {
			panic("oops: Convert should be MakeInterface")
		}
	}

	// Remaining conversions:
	//    + untyped string/number/bool constant to a specific
	//      representation.
	//    + conversions between non-complex numeric types.
	//    + conversions between complex numeric types.
	//    + integer/[]byte/[]rune -> string.
	//    + string -> []byte/[]rune.
	//
	// All are treated the same: first we extract the value to the
	// widest representation (int64, uint64, float64, complex128,
	// or string), then we convert it to the desired type.

	switch ut_src := ut_src.(type) {
	case *types.Pointer:
		switch ut_dst := ut_dst.(type) {
		case *types.Basic:
			// *value to unsafe.Pointer?
			if ut_dst.Kind() == types.UnsafePointer {
				return unsafe.Pointer(x.(*value))
			}
		}

	case *types.Slice:
		// []byte or []rune -> string
		switch ut_src.Elem().Underlying().(*types.Basic).Kind() {
		case types.Byte:
			x := x.([]value)
			b := make([]byte, 0, len(x))
			for i := range x {
				if _, ok := x[i].(sym); ok {
					return ex.bytesToSymString(x)
				}
				b = append(b, x[i].(byte))
			}
			return string(b)

		case types.Rune:
			x := x.([]value)
			r := make([]rune, 0, len(x))
			for i := range x {
				r = append(r, x[i].(rune))
			}
			return string(r)
		}

	case *types.Basic:
		x = widen(x)

		// integer -> string?
		if ut_src.Info()&types.IsInteger != 0 {
			if ut_dst, ok := ut_dst.(*types.Basic); ok && ut_dst.Kind() == types.String {
				return fmt.Sprintf("%c", x)
			}
		}

		// string -> []rune, []byte or string?
		if s, ok := x.(string); ok {
			switch ut_dst := ut_dst.(type) {
			case *types.Slice:
				var res []value
				switch ut_dst.Elem().Underlying().(*types.Basic).Kind() {
				case types.Rune:
					for _, r := range []rune(s) {
						res = append(res, r)
					}
					return res
				case types.Byte:
					for _, b := range []byte(s) {
						res = append(res, b)
					}
					return res
				}
			case *types.Basic:
				if ut_dst.Kind() == types.String {
					return x.(string)
				}
			}
			break // fail: no other conversions for string
		}

		// unsafe.Pointer -> *value
		if ut_src.Kind() == types.UnsafePointer {
			// TODO(adonovan): this is wrong and cannot
			// really be fixed with the current design.
			//
			// return (*value)(x.(unsafe.Pointer))
			// creates a new pointer of a different
			// type but the underlying interface value
			// knows its "true" type and so cannot be
			// meaningfully used through the new pointer.
			//
			// To make this work, the interpreter needs to
			// simulate the memory layout of a real
			// compiled implementation.
			//
			// To at least preserve type-safety, we'll
			// just return the zero value of the
			// destination type.
			return zero(t_dst)
		}

		// Conversions between complex numeric types?
		if ut_src.Info()&types.IsComplex != 0 {
			switch ut_dst.(*types.Basic).Kind() {
			case types.Complex64:
				return complex64(x.(complex128))
			case types.Complex128:
				return x.(complex128)
			}
			break // fail: no other conversions for complex
		}

		// Conversions between non-complex numeric types?
		if ut_src.Info()&types.IsNumeric != 0 {
			kind := ut_dst.(*types.Basic).Kind()
			switch x := x.(type) {
			case int64: // signed integer -> numeric?
				switch kind {
				case types.Int:
					return int(x)
				case types.Int8:
					return int8(x)
				case types.Int16:
					return int16(x)
				case types.Int32:
					return int32(x)
				case types.Int64:
					return int64(x)
				case types.Uint:
					return uint(x)
				case types.Uint8:
					return uint8(x)
				case types.Uint16:
					return uint16(x)
				case types.Uint32:
					return uint32(x)
				case types.Uint64:
					return uint64(x)
				case types.Uintptr:
					return uintptr(x)
				case types.Float32:
					return float32(x)
				case types.Float64:
					return float64(x)
				}

			case uint64: // unsigned integer -> numeric?
				switch kind {
				case types.Int:
					return int(x)
				case types.Int8:
					return int8(x)
				case types.Int16:
					return int16(x)
				case types.Int32:
					return int32(x)
				case types.Int64:
					return int64(x)
				case types.Uint:
					return uint(x)
				case types.Uint8:
					return uint8(x)
				case types.Uint16:
					return uint16(x)
				case types.Uint32:
					return uint32(x)
				case types.Uint64:
					return uint64(x)
				case types.Uintptr:
					return uintptr(x)
				case types.Float32:
					return float32(x)
				case types.Float64:
					return float64(x)
				}

			case float64: // floating point -> numeric?
				switch kind {
				case types.Int:
					return int(x)
				case types.Int8:
					return int8(x)
				case types.Int16:
					return int16(x)
				case types.Int32:
					return int32(x)
				case types.Int64:
					return int64(x)
				case types.Uint:
					return uint(x)
				case types.Uint8:
					return uint8(x)
				case types.Uint16:
					return uint16(x)
				case types.Uint32:
					return uint32(x)
				case types.Uint64:
					return uint64(x)
				case types.Uintptr:
					return uintptr(x)
				case types.Float32:
					return float32(x)
				case types.Float64:
					return float64(x)
				}
			}
		}
	}

	panic(fmt.Sprintf("unsupported conversion: %s  -> %s, dynamic type %T", t_src, t_dst, x))
}

// sliceToArrayPointer converts the value x of type slice to type t_dst
// a pointer to array and returns the result.
func sliceToArrayPointer(t_dst, t_src types.Type, x value) value {
	if _, ok := t_src.Underlying().(*types.Slice); ok {
		if ptr, ok := t_dst.Underlying().(*types.Pointer); ok {
			if arr, ok := ptr.Elem().Underlying().(*types.Array); ok {
				x := x.([]value)
				if arr.Len() > int64(len(x)) {
					panic("array length is greater than slice length")
				}
				if x == nil {
					return zero(t_dst)
				}
				v := value(array(x[:arr.Len()]))
				return &v
			}
		}
	}

	panic(fmt.Sprintf("unsupported conversion: %s  -> %s, dynamic type %T", t_src, t_dst, x))
}

// checkInterface checks that the method set of x implements the
// interface itype.
// On success it returns "", on failure, an error message.
func checkInterface(i *interpreter, itype *types.Interface, x iface) string {
	if meth, _ := types.MissingMethod(x.t, itype, true); meth != nil {
		return fmt.Sprintf("interface conversion: %v is not %v: missing method %s",
			x.t, itype, meth.Name())
	}
	return "" // ok
}

func foldLeft(op func(value, value) value, args []value) value {
	x := args[0]
	for _, arg := range args[1:] {
		x = op(x, arg)
	}
	return x
}

func (ex *exec) min(x, y value) value {
	if isSym(x) || isSym(y) {
		c := ex.symBinop(token.LSS, nil, y, x)
		return ex.iteVal(c, y, x)
	}
	switch x := x.(type) {
	case float32:
		return fmin(x, y.(float32))
	case float64:
		return fmin(x, y.(float64))
	}

	// return (y < x) ? y : x
	if binop(ex, token.LSS, nil, y, x).(bool) {
		return y
	}
	return x
}

func (ex *exec) max(x, y value) value {
	if isSym(x) || isSym(y) {
		c := ex.symBinop(token.GTR, nil, y, x)
		return ex.iteVal(c, y, x)
	}
	switch x := x.(type) {
	case float32:
		return fmax(x, y.(float32))
	case float64:
		return fmax(x, y.(float64))
	}

	// return (y > x) ? y : x
	if binop(ex, token.GTR, nil, y, x).(bool) {
		return y
	}
	return x
}

// copied from $GOROOT/src/runtime/minmax.go

type floaty interface{ ~float32 | ~float64 }

func fmin[F floaty](x, y F) F {
	if y != y || y < x {
		return y
	}
	if x != x || x < y || x != 0 {
		return x
	}
	// x and y are both ±0
	// if either is -0, return -0; else return +0
	return forbits(x, y)
}

func fmax[F floaty](x, y F) F {
	if y != y || y > x {
		return y
	}
	if x != x || x > y || x != 0 {
		return x
	}
	// x and y are both ±0
	// if both are -0, return -0; else return +0
	return fandbits(x, y)
}

func forbits[F floaty](x, y F) F {
	switch unsafe.Sizeof(x) {
	case 4:
		*(*uint32)(unsafe.Pointer(&x)) |= *(*uint32)(unsafe.Pointer(&y))
	case 8:
		*(*uint64)(unsafe.Pointer(&x)) |= *(*uint64)(unsafe.Pointer(&y))
	}
	return x
}

func fandbits[F floaty](x, y F) F {
	switch unsafe.Sizeof(x) {
	case 4:
		*(*uint32)(unsafe.Pointer(&x)) &= *(*uint32)(unsafe.Pointer(&y))
	case 8:
		*(*uint64)(unsafe.Pointer(&x)) &= *(*uint64)(unsafe.Pointer(&y))
	}
	return x
}
