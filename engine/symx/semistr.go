package symx

// Semi-symbolic strings: strings of concrete length whose characters are either concrete bytes or
// single symbolic characters (zzvByteString). Positions are concrete, so Go's index arithmetic
// over them stays concrete; character comparisons against concrete bytes are decided by the
// solver under the path condition (the harness's alphabet assumption prunes them).
//
// regexp on such a subject: the real matcher runs on the subject with every symbolic character
// replaced by a marker letter, twice with different letters; the two answers must agree, and
// every symbolic character must be provably a lower-case letter (so that the patterns of
// template.go - whose literal letters only occur right after "{{", "{{#", "{{/" or "{{@" -
// cannot tell two values apart). Anything else is reported as unsupported.

import (
	"go/types"
	"regexp"
	"strings"

	"gosx/smt"
)

type schar struct {
	c byte
	t *smt.Term // non-nil: a single symbolic character
}

func (x *exec) semiOf(v value) ([]schar, bool) {
	switch s := v.(type) {
	case string:
		out := make([]schar, len(s))
		for i := 0; i < len(s); i++ {
			out[i] = schar{c: s[i]}
		}
		return out, true
	case sym:
		if s.k != types.String {
			return nil, false
		}
		ps, ok := x.flatPieces(s.t)
		if !ok {
			return nil, false
		}
		var out []schar
		for _, p := range ps {
			if p.IsConst() {
				for i := 0; i < len(p.S); i++ {
					out = append(out, schar{c: p.S[i]})
				}
			} else {
				out = append(out, schar{t: p})
			}
		}
		return out, true
	}
	return nil, false
}

// flatPieces flattens a string term into constants and single symbolic characters; joined
// strings ite(c, a, b) (state merging) are resolved by deciding c.
func (x *exec) flatPieces(t *smt.Term) (out []*smt.Term, ok bool) {
	switch {
	case t.IsConst(), x.tb.IsUnit(t):
		return []*smt.Term{t}, true
	case t.Op == "str.++":
		for _, a := range t.Args {
			p, ok := x.flatPieces(a)
			if !ok {
				return nil, false
			}
			out = append(out, p...)
		}
		return out, true
	case t.Op == "ite" && t.Sort == smt.Str:
		if x.decide(t.Args[0]) {
			return x.flatPieces(t.Args[1])
		}
		return x.flatPieces(t.Args[2])
	}
	return nil, false
}

func (x *exec) semiVal(cs []schar) value {
	allC := true
	for _, c := range cs {
		if c.t != nil {
			allC = false
		}
	}
	if allC {
		b := make([]byte, len(cs))
		for i, c := range cs {
			b[i] = c.c
		}
		return string(b)
	}
	var parts []*smt.Term
	var run []byte
	for _, c := range cs {
		if c.t == nil {
			run = append(run, c.c)
			continue
		}
		if len(run) > 0 {
			parts = append(parts, x.tb.StrC(string(run)))
			run = nil
		}
		parts = append(parts, c.t)
	}
	if len(run) > 0 {
		parts = append(parts, x.tb.StrC(string(run)))
	}
	return x.mkSym(types.String, x.tb.Concat(parts...))
}

func hasSymChar(cs []schar) bool {
	for _, c := range cs {
		if c.t != nil {
			return true
		}
	}
	return false
}

func marked(cs []schar, m byte) string {
	b := make([]byte, len(cs))
	for i, c := range cs {
		if c.t != nil {
			b[i] = m
		} else {
			b[i] = c.c
		}
	}
	return string(b)
}

// lettersOnly: every symbolic character of cs is a lower-case letter on every input of this path.
func (x *exec) lettersOnly(cs []schar) bool {
	if x.letterOK == nil {
		x.letterOK = map[*smt.Term]bool{}
	}
	for _, c := range cs {
		if c.t == nil {
			continue
		}
		if ok, seen := x.letterOK[c.t]; seen {
			if !ok {
				return false
			}
			continue
		}
		ok := true
		if x.checking() {
			r, _ := x.query(x.tb.Not(x.tb.InRe(c.t, `(re.range "a" "z")`)), false)
			ok = r == smt.Unsat
		}
		x.letterOK[c.t] = ok
		if !ok {
			return false
		}
	}
	return true
}

// charEq decides cs[i] == b.
func (x *exec) charEq(c schar, b byte) bool {
	if c.t == nil {
		return c.c == b
	}
	return x.decide(x.tb.Eq(c.t, x.tb.StrC(string([]byte{b}))))
}

// semiIndex: first position >= from where the concrete string pat occurs in cs, -1 if none.
func (x *exec) semiIndex(cs []schar, pat string, from int) int {
	if pat == "" {
		return from
	}
	for i := from; i+len(pat) <= len(cs); i++ {
		// cheap reject on concrete characters first
		possible := true
		for j := 0; j < len(pat); j++ {
			if cs[i+j].t == nil && cs[i+j].c != pat[j] {
				possible = false
				break
			}
		}
		if !possible {
			continue
		}
		match := true
		for j := 0; j < len(pat); j++ {
			if cs[i+j].t != nil && !x.charEq(cs[i+j], pat[j]) {
				match = false
				break
			}
		}
		if match {
			return i
		}
	}
	return -1
}

func isSpaceByte(b byte) bool {
	return b == ' ' || b == '\t' || b == '\n' || b == '\r' || b == '\v' || b == '\f'
}

func (x *exec) semiIsSpace(c schar) bool {
	if c.t == nil {
		return isSpaceByte(c.c)
	}
	for _, b := range []byte{' ', '\t', '\n', '\r', '\v', '\f'} {
		if x.charEq(c, b) {
			return true
		}
	}
	return false
}

// reOnSemi runs f on the marker-substituted subject with two marker letters and checks that the
// answers agree.
func (x *exec) reOnSemi(cs []schar, what string, f func(subject string) interface{}, same func(a, b interface{}) bool) interface{} {
	markers := []byte{'q', 'x'}
	if !x.lettersOnly(cs) {
		if !x.braceFree(cs) {
			x.abandon("regexp." + what + " on a subject whose symbolic characters may be braces")
		}
		// arbitrary brace-free characters: the answer must not depend on their class
		markers = []byte{'q', 'x', '~', ' ', '"', '7'}
		x.noteAssume("regexp on subjects with symbolic brace-free characters: the real matcher's answer on marker-substituted subjects (letters, punctuation, blank, quote, digit) is used only when all agree")
	}
	a := f(marked(cs, markers[0]))
	for _, m := range markers[1:] {
		if !same(a, f(marked(cs, m))) {
			x.abandon("regexp." + what + ": the match depends on the content of symbolic values")
		}
	}
	return a
}

// braceFree: no symbolic character of cs can be '{' or '}' on this path.
func (x *exec) braceFree(cs []schar) bool {
	if x.braceOK == nil {
		x.braceOK = map[*smt.Term]bool{}
	}
	for _, c := range cs {
		if c.t == nil {
			continue
		}
		if ok, seen := x.braceOK[c.t]; seen {
			if !ok {
				return false
			}
			continue
		}
		ok := true
		if x.checking() {
			r, _ := x.query(x.tb.Or(x.tb.Eq(c.t, x.tb.StrC("{")), x.tb.Eq(c.t, x.tb.StrC("}"))), false)
			ok = r == smt.Unsat
		}
		x.braceOK[c.t] = ok
		if !ok {
			return false
		}
	}
	return true
}

func sameInts(a, b interface{}) bool {
	x, y := a.([]int), b.([]int)
	if len(x) != len(y) {
		return false
	}
	for i := range x {
		if x[i] != y[i] {
			return false
		}
	}
	return true
}

func sameIntss(a, b interface{}) bool {
	x, y := a.([][]int), b.([][]int)
	if len(x) != len(y) {
		return false
	}
	for i := range x {
		if !sameInts(x[i], y[i]) {
			return false
		}
	}
	return true
}

func intsValue(v []int) value {
	if v == nil {
		return []value(nil)
	}
	out := make([]value, len(v))
	for i := range v {
		out[i] = v[i]
	}
	return out
}

func init() {
	reOf := func(v value) *regexp.Regexp { return v.(native).v.(*regexp.Regexp) }
	subj := func(fr *frame, v value, what string) []schar {
		cs, ok := fr.i.x.semiOf(v)
		if !ok {
			fr.i.x.abandon("regexp." + what + " on a symbolic subject that is not a semi-symbolic string")
		}
		return cs
	}
	symModels["(*regexp.Regexp).MatchString"] = func(fr *frame, args []value) value {
		re, cs := reOf(args[0]), subj(fr, args[1], "MatchString")
		return fr.i.x.reOnSemi(cs, "MatchString", func(s string) interface{} {
			if re.MatchString(s) {
				return []int{1}
			}
			return []int{0}
		}, sameInts).([]int)[0] == 1
	}
	symModels["(*regexp.Regexp).FindStringIndex"] = func(fr *frame, args []value) value {
		re, cs := reOf(args[0]), subj(fr, args[1], "FindStringIndex")
		r := fr.i.x.reOnSemi(cs, "FindStringIndex", func(s string) interface{} { return re.FindStringIndex(s) }, sameInts).([]int)
		return intsValue(r)
	}
	submatch := func(fr *frame, cs []schar, idx []int) value {
		if idx == nil {
			return []value(nil)
		}
		out := make([]value, len(idx)/2)
		for g := range out {
			if idx[2*g] < 0 {
				out[g] = ""
				continue
			}
			out[g] = fr.i.x.semiVal(cs[idx[2*g]:idx[2*g+1]])
		}
		return out
	}
	symModels["(*regexp.Regexp).FindStringSubmatch"] = func(fr *frame, args []value) value {
		re, cs := reOf(args[0]), subj(fr, args[1], "FindStringSubmatch")
		r := fr.i.x.reOnSemi(cs, "FindStringSubmatch", func(s string) interface{} { return re.FindStringSubmatchIndex(s) }, sameInts).([]int)
		return submatch(fr, cs, r)
	}
	symModels["(*regexp.Regexp).FindAllStringSubmatchIndex"] = func(fr *frame, args []value) value {
		re, cs := reOf(args[0]), subj(fr, args[1], "FindAllStringSubmatchIndex")
		n := int(asInt64(args[2]))
		r := fr.i.x.reOnSemi(cs, "FindAllStringSubmatchIndex", func(s string) interface{} { return re.FindAllStringSubmatchIndex(s, n) }, sameIntss).([][]int)
		if r == nil {
			return []value(nil)
		}
		out := make([]value, len(r))
		for i := range r {
			out[i] = intsValue(r[i])
		}
		return out
	}
	symModels["(*regexp.Regexp).FindAllStringSubmatch"] = func(fr *frame, args []value) value {
		re, cs := reOf(args[0]), subj(fr, args[1], "FindAllStringSubmatch")
		n := int(asInt64(args[2]))
		r := fr.i.x.reOnSemi(cs, "FindAllStringSubmatch", func(s string) interface{} { return re.FindAllStringSubmatchIndex(s, n) }, sameIntss).([][]int)
		if r == nil {
			return []value(nil)
		}
		out := make([]value, len(r))
		for i := range r {
			out[i] = submatch(fr, cs, r[i])
		}
		return out
	}
	symModels["(*regexp.Regexp).FindAllString"] = func(fr *frame, args []value) value {
		re, cs := reOf(args[0]), subj(fr, args[1], "FindAllString")
		n := int(asInt64(args[2]))
		r := fr.i.x.reOnSemi(cs, "FindAllString", func(s string) interface{} { return re.FindAllStringIndex(s, n) }, sameIntss).([][]int)
		if r == nil {
			return []value(nil)
		}
		out := make([]value, len(r))
		for i := range r {
			out[i] = fr.i.x.semiVal(cs[r[i][0]:r[i][1]])
		}
		return out
	}
	symModels["(*regexp.Regexp).FindString"] = func(fr *frame, args []value) value {
		re, cs := reOf(args[0]), subj(fr, args[1], "FindString")
		r := fr.i.x.reOnSemi(cs, "FindString", func(s string) interface{} { return re.FindStringIndex(s) }, sameInts).([]int)
		if r == nil {
			return ""
		}
		return fr.i.x.semiVal(cs[r[0]:r[1]])
	}

	// ---- strings.* on semi-symbolic strings (second argument concrete) ----
	semi2 := func(fr *frame, args []value, what string) ([]schar, string, bool) {
		cs, ok := fr.i.x.semiOf(args[0])
		pat, ok2 := args[1].(string)
		if !ok || !ok2 || !hasSymChar(cs) {
			return nil, "", false
		}
		return cs, pat, true
	}
	wrap := func(name string, semi func(fr *frame, cs []schar, pat string, args []value) value) {
		prev := symModels[name]
		symModels[name] = func(fr *frame, args []value) value {
			if cs, pat, ok := semi2(fr, args, name); ok {
				return semi(fr, cs, pat, args)
			}
			if prev == nil {
				fr.i.x.abandon("symbolic argument reaches un-modelled native function " + name)
			}
			return prev(fr, args)
		}
	}
	wrap("strings.Contains", func(fr *frame, cs []schar, pat string, args []value) value {
		return fr.i.x.semiIndex(cs, pat, 0) >= 0
	})
	wrap("strings.Index", func(fr *frame, cs []schar, pat string, args []value) value {
		return fr.i.x.semiIndex(cs, pat, 0)
	})
	wrap("strings.HasPrefix", func(fr *frame, cs []schar, pat string, args []value) value {
		return len(pat) <= len(cs) && fr.i.x.semiIndex(cs[:len(pat)], pat, 0) == 0
	})
	wrap("strings.HasSuffix", func(fr *frame, cs []schar, pat string, args []value) value {
		return len(pat) <= len(cs) && fr.i.x.semiIndex(cs[len(cs)-len(pat):], pat, 0) == 0
	})
	{
		prevSplit := symModels["strings.Split"]
		symModels["strings.Split"] = func(fr *frame, args []value) value {
			x := fr.i.x
			if sv, isSym := args[0].(sym); isSym {
				if _, semi := x.semiOf(args[0]); !semi {
					if sep, ok := args[1].(string); ok && sep != "" && x.checking() {
						// the separator cannot occur on any input of this path: one field
						if r, _ := x.query(x.tb.Contains(sv.t, x.tb.StrC(sep)), false); r == smt.Unsat {
							return []value{args[0]}
						}
					}
					x.abandon("strings.Split on a symbolic string that may contain the separator")
				}
			}
			if prevSplit != nil {
				return prevSplit(fr, args)
			}
			x.abandon("strings.Split on symbolic arguments")
			return nil
		}
	}
	wrap("strings.Split", func(fr *frame, cs []schar, pat string, args []value) value {
		x := fr.i.x
		if pat == "" {
			x.abandon("strings.Split with an empty separator on a semi-symbolic string")
		}
		var out []value
		from := 0
		for {
			i := x.semiIndex(cs, pat, from)
			if i < 0 {
				break
			}
			out = append(out, x.semiVal(cs[from:i]))
			from = i + len(pat)
		}
		out = append(out, x.semiVal(cs[from:]))
		return out
	})
	wrap("strings.SplitAfter", func(fr *frame, cs []schar, pat string, args []value) value {
		x := fr.i.x
		if pat == "" {
			x.abandon("strings.SplitAfter with an empty separator on a semi-symbolic string")
		}
		var out []value
		from := 0
		for {
			i := x.semiIndex(cs, pat, from)
			if i < 0 {
				break
			}
			out = append(out, x.semiVal(cs[from:i+len(pat)]))
			from = i + len(pat)
		}
		out = append(out, x.semiVal(cs[from:]))
		return out
	})
	wrap("strings.ContainsAny", func(fr *frame, cs []schar, pat string, args []value) value {
		for _, c := range cs {
			for j := 0; j < len(pat); j++ {
				if fr.i.x.charEq(c, pat[j]) {
					return true
				}
			}
		}
		return false
	})
	wrap("strings.IndexAny", func(fr *frame, cs []schar, pat string, args []value) value {
		for i, c := range cs {
			for j := 0; j < len(pat); j++ {
				if fr.i.x.charEq(c, pat[j]) {
					return i
				}
			}
		}
		return -1
	})
	wrap("strings.Count", func(fr *frame, cs []schar, pat string, args []value) value {
		x := fr.i.x
		if pat == "" {
			x.abandon("strings.Count with an empty pattern on a semi-symbolic string")
		}
		n, from := 0, 0
		for {
			i := x.semiIndex(cs, pat, from)
			if i < 0 {
				return n
			}
			n++
			from = i + len(pat)
		}
	})
	wrap("strings.LastIndex", func(fr *frame, cs []schar, pat string, args []value) value {
		x := fr.i.x
		last, from := -1, 0
		for {
			i := x.semiIndex(cs, pat, from)
			if i < 0 {
				return last
			}
			last = i
			from = i + 1
		}
	})
	trim := func(left, right bool) func(fr *frame, cs []schar, pat string, args []value) value {
		return func(fr *frame, cs []schar, pat string, args []value) value {
			x := fr.i.x
			in := func(c schar) bool {
				for j := 0; j < len(pat); j++ {
					if x.charEq(c, pat[j]) {
						return true
					}
				}
				return false
			}
			a, b := 0, len(cs)
			for left && a < b && in(cs[a]) {
				a++
			}
			for right && b > a && in(cs[b-1]) {
				b--
			}
			return x.semiVal(cs[a:b])
		}
	}
	wrap("strings.Trim", trim(true, true))
	wrap("strings.TrimLeft", trim(true, false))
	wrap("strings.TrimRight", trim(false, true))
	wrap("strings.TrimPrefix", func(fr *frame, cs []schar, pat string, args []value) value {
		if len(pat) <= len(cs) && fr.i.x.semiIndex(cs[:len(pat)], pat, 0) == 0 {
			return fr.i.x.semiVal(cs[len(pat):])
		}
		return args[0]
	})
	wrap("strings.TrimSuffix", func(fr *frame, cs []schar, pat string, args []value) value {
		if len(pat) <= len(cs) && fr.i.x.semiIndex(cs[len(cs)-len(pat):], pat, 0) == 0 {
			return fr.i.x.semiVal(cs[:len(cs)-len(pat)])
		}
		return args[0]
	})
	symModels["strings.IndexByte"] = func(fr *frame, args []value) value {
		cs, ok := fr.i.x.semiOf(args[0])
		b, ok2 := args[1].(uint8)
		if !ok || !ok2 {
			fr.i.x.abandon("strings.IndexByte on an un-modelled symbolic argument")
		}
		for i, c := range cs {
			if fr.i.x.charEq(c, b) {
				return i
			}
		}
		return -1
	}
	symModels["strings.ContainsRune"] = func(fr *frame, args []value) value {
		cs, ok := fr.i.x.semiOf(args[0])
		r, ok2 := args[1].(int32)
		if !ok || !ok2 || r >= 128 {
			fr.i.x.abandon("strings.ContainsRune on an un-modelled symbolic argument")
		}
		for _, c := range cs {
			if fr.i.x.charEq(c, byte(r)) {
				return true
			}
		}
		return false
	}
	symModels["strings.Fields"] = func(fr *frame, args []value) value {
		x := fr.i.x
		cs, ok := x.semiOf(args[0])
		if !ok {
			x.abandon("strings.Fields on a symbolic string that is not semi-symbolic")
		}
		var out []value
		i := 0
		for i < len(cs) {
			for i < len(cs) && x.semiIsSpace(cs[i]) {
				i++
			}
			j := i
			for j < len(cs) && !x.semiIsSpace(cs[j]) {
				j++
			}
			if j > i {
				out = append(out, x.semiVal(cs[i:j]))
			}
			i = j
		}
		return out
	}
	symModels["strings.EqualFold"] = func(fr *frame, args []value) value {
		// one side concrete (ASCII): membership in the case-insensitive regular expression of it
		x := fr.i.x
		a, b := args[0], args[1]
		if _, ok := a.(string); ok {
			a, b = b, a
		}
		c, ok := b.(string)
		sv, ok2 := a.(sym)
		if !ok || !ok2 {
			x.abandon("strings.EqualFold with two symbolic arguments")
		}
		if c == "" {
			return x.mkSym(types.Bool, x.tb.Eq(sv.t, x.tb.StrC("")))
		}
		esc := func(ch byte) string {
			if ch == '"' {
				return `""`
			}
			if ch < 0x20 || ch > 0x7e {
				x.abandon("strings.EqualFold against a non-ASCII constant")
			}
			return string([]byte{ch})
		}
		re := "(re.++"
		for i := 0; i < len(c); i++ {
			lo, up := c[i], c[i]
			if lo >= 'A' && lo <= 'Z' {
				lo += 'a' - 'A'
			}
			if up >= 'a' && up <= 'z' {
				up -= 'a' - 'A'
			}
			if lo == up {
				re += ` (str.to_re "` + esc(lo) + `")`
			} else {
				re += ` (re.union (str.to_re "` + esc(lo) + `") (str.to_re "` + esc(up) + `"))`
			}
		}
		if len(c) == 1 {
			re += ` (str.to_re "")`
		}
		re += ")"
		x.noteAssume("strings.EqualFold model: ASCII case folding only")
		return x.mkSym(types.Bool, x.tb.InRe(sv.t, re))
	}
	symModels["strconv.FormatBool"] = func(fr *frame, args []value) value {
		// decided (forked) so that the text stays concrete
		if b, ok := args[0].(bool); ok {
			if b {
				return "true"
			}
			return "false"
		}
		if fr.i.x.decide(fr.i.x.term(args[0])) {
			return "true"
		}
		return "false"
	}
	symModels["strings.Join"] = func(fr *frame, args []value) value {
		x := fr.i.x
		parts, _ := args[0].([]value)
		var out value = ""
		for i, p := range parts {
			if i > 0 {
				out = x.concat(out, args[1])
			}
			out = x.concat(out, p)
		}
		return out
	}
	// ReplaceAll(s, old, new): old concrete and non-empty, new arbitrary
	prevRA := symModels["strings.ReplaceAll"]
	symModels["strings.ReplaceAll"] = func(fr *frame, args []value) value {
		x := fr.i.x
		cs, ok := x.semiOf(args[0])
		old, ok2 := args[1].(string)
		if !ok || !ok2 || old == "" {
			if sv, isSym := args[0].(sym); isSym && ok2 && old != "" && x.checking() {
				// nothing to replace on any input of this path: the string is returned unchanged
				if r, _ := x.query(x.tb.Contains(sv.t, x.tb.StrC(old)), false); r == smt.Unsat {
					return args[0]
				}
			}
			return prevRA(fr, args)
		}
		var out value = ""
		from := 0
		for {
			i := x.semiIndex(cs, old, from)
			if i < 0 {
				break
			}
			out = x.concat(x.concat(out, x.semiVal(cs[from:i])), args[2])
			from = i + len(old)
		}
		return x.concat(out, x.semiVal(cs[from:]))
	}
	prevTS := symModels["strings.TrimSpace"]
	symModels["strings.TrimSpace"] = func(fr *frame, args []value) value {
		x := fr.i.x
		cs, ok := x.semiOf(args[0])
		if !ok {
			return prevTS(fr, args)
		}
		a, b := 0, len(cs)
		for a < b && x.semiIsSpace(cs[a]) {
			a++
		}
		for b > a && x.semiIsSpace(cs[b-1]) {
			b--
		}
		return x.semiVal(cs[a:b])
	}
	_ = strings.Contains
}
