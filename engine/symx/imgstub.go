package symx

// image/png, image/jpeg, image/gif Decode: on concrete bytes the real decoder runs
// natively and only the bounds are kept; symbolic image data is not decoded.

import (
	"bytes"
	"go/types"
	"image"
	"image/gif"
	"image/jpeg"
	"image/png"
	"io"
)

type imgObj struct{ w, h int }

func init() {
	mk := func(dec func(io.Reader) (image.Image, error)) externalFn {
		return func(fr *frame, args []value) value {
			x := fr.i.x
			itf, _ := args[0].(iface)
			n, _ := itf.v.(native)
			r, ok := n.v.(*readerObj)
			if !ok {
				x.abandon("image decode over an un-modelled reader")
			}
			var data []byte
			switch s := r.src.(type) {
			case []value:
				str, ok := concreteBytes(s)
				if !ok {
					x.abandon("image decode of symbolic bytes")
				}
				data = []byte(str)
			case string:
				data = []byte(s)
			default:
				x.abandon("image decode of symbolic bytes")
			}
			img, err := dec(bytes.NewReader(data))
			if err != nil {
				return tuple{iface{}, fr.i.mkError(err.Error())}
			}
			b := img.Bounds()
			t := types.NewPointer(fr.i.pkgType("image", "RGBA"))
			return tuple{iface{t, native{&imgObj{b.Dx(), b.Dy()}}}, iface{}}
		}
	}
	externals["image/png.Decode"] = mk(png.Decode)
	externals["image/jpeg.Decode"] = mk(jpeg.Decode)
	externals["image/gif.Decode"] = mk(gif.Decode)
	externals["(*image.RGBA).Bounds"] = func(fr *frame, args []value) value {
		o := args[0].(native).v.(*imgObj)
		return structure{structure{0, 0}, structure{o.w, o.h}}
	}
	externals["(image.Rectangle).Dx"] = func(fr *frame, args []value) value {
		r := args[0].(structure)
		return r[1].(structure)[0].(int) - r[0].(structure)[0].(int)
	}
	externals["(image.Rectangle).Dy"] = func(fr *frame, args []value) value {
		r := args[0].(structure)
		return r[1].(structure)[1].(int) - r[0].(structure)[1].(int)
	}
}
