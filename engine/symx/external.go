package symx

// Calls that leave the interpreted packages: native dispatch on concrete
// arguments (exact by construction: the real function runs), symbolic models
// for a small set of std functions, stubs for I/O. See DESIGN.md §2.3/§4.

import (
	"fmt"
	"go/types"
	"reflect"
	"strings"

	"golang.org/x/tools/go/ssa"
)

type externalFn func(fr *frame, args []value) value

// externals take precedence over everything (intrinsics, stubs).
var externals = map[string]externalFn{}

// symModels are consulted when some argument is symbolic.
var symModels = map[string]externalFn{}

// natives are real Go functions called through reflection on concrete arguments.
var natives = map[string]interface{}{}

func hasSym(v value) bool {
	switch v := v.(type) {
	case sym, symBytes:
		return true
	case iface:
		return hasSym(v.v)
	case []value:
		for _, e := range v {
			if hasSym(e) {
				return true
			}
		}
	case structure:
		for _, e := range v {
			if hasSym(e) {
				return true
			}
		}
	case tuple:
		for _, e := range v {
			if hasSym(e) {
				return true
			}
		}
	}
	return false
}

// callNativeByName dispatches like callNative for a function known by name with signature lookup.
func callNativeByName(fr *frame, name string, args []value) value {
	for fn := range fr.i.prog.ImportedPackage(name[:strings.Index(name, ".")]).Members {
		_ = fn
	}
	p := fr.i.prog.ImportedPackage(name[:strings.Index(name, ".")])
	f := p.Func(name[strings.Index(name, ".")+1:])
	return callNativeFn(fr, f, args)
}

func callNative(fr *frame, fn *ssa.Function, args []value) value {
	return callNativeFn(fr, fn, args)
}

func callNativeFn(fr *frame, fn *ssa.Function, args []value) value {
	name := fn.String()
	x := fr.i.x
	anySym := false
	for _, a := range args {
		if hasSym(a) {
			anySym = true
			break
		}
	}
	if anySym {
		if m := symModels[name]; m != nil {
			return m(fr, args)
		}
	}
	if nf := natives[name]; nf != nil {
		if anySym {
			x.abandon("symbolic argument reaches un-modelled native function " + name)
		}
		if m := symModels[name]; m != nil && !convertible(fr, nf, args) {
			// aggregates the host function cannot take (maps, structs with symbolic leaves): the model
			return m(fr, args)
		}
		return reflectCall(fr, name, nf, args, fn.Signature)
	}
	if m := symModels[name]; m != nil {
		return m(fr, args)
	}
	x.abandon("call to un-modelled external function " + name)
	return nil
}

// convertible: every argument can be handed to the host function.
func convertible(fr *frame, nf interface{}, args []value) bool {
	ft := reflect.ValueOf(nf).Type()
	for i, a := range args {
		var pt reflect.Type
		if ft.IsVariadic() && i >= ft.NumIn()-1 {
			pt = ft.In(ft.NumIn() - 1)
		} else if i < ft.NumIn() {
			pt = ft.In(i)
		} else {
			return false
		}
		if _, ok := toGo(fr, a, pt); !ok {
			return false
		}
	}
	return true
}

var errorIface = reflect.TypeOf((*error)(nil)).Elem()
var emptyIface = reflect.TypeOf((*interface{})(nil)).Elem()

func reflectCall(fr *frame, name string, nf interface{}, args []value, sig *types.Signature) value {
	fv := reflect.ValueOf(nf)
	ft := fv.Type()
	in := make([]reflect.Value, 0, len(args))
	for i, a := range args {
		var pt reflect.Type
		if ft.IsVariadic() && i >= ft.NumIn()-1 {
			pt = ft.In(ft.NumIn() - 1) // the slice type
			if i != ft.NumIn()-1 {
				panic(enginePanic{"variadic native call shape: " + name})
			}
		} else {
			pt = ft.In(i)
		}
		rv, ok := toGo(fr, a, pt)
		if !ok {
			fr.i.x.abandon(fmt.Sprintf("cannot pass argument %d (%T) to native %s", i, a, name))
		}
		in = append(in, rv)
	}
	var out []reflect.Value
	if ft.IsVariadic() {
		out = fv.CallSlice(in)
	} else {
		out = fv.Call(in)
	}
	res := sig.Results()
	switch len(out) {
	case 0:
		return nil
	case 1:
		return fromGo(fr, out[0], res.At(0).Type())
	}
	t := make(tuple, len(out))
	for i := range out {
		t[i] = fromGo(fr, out[i], res.At(i).Type())
	}
	return t
}

// toGo converts an interpreter value to a host value of type rt.
func toGo(fr *frame, v value, rt reflect.Type) (reflect.Value, bool) {
	if n, ok := v.(native); ok {
		rv := reflect.ValueOf(n.v)
		if n.v == nil {
			return reflect.Zero(rt), true
		}
		if rv.Type().AssignableTo(rt) {
			return rv, true
		}
		return reflect.Value{}, false
	}
	switch rt.Kind() {
	case reflect.String:
		if s, ok := v.(string); ok {
			return reflect.ValueOf(s).Convert(rt), true
		}
	case reflect.Bool:
		if b, ok := v.(bool); ok {
			return reflect.ValueOf(b).Convert(rt), true
		}
	case reflect.Int, reflect.Int8, reflect.Int16, reflect.Int32, reflect.Int64,
		reflect.Uint, reflect.Uint8, reflect.Uint16, reflect.Uint32, reflect.Uint64, reflect.Uintptr,
		reflect.Float32, reflect.Float64:
		switch v.(type) {
		case int, int8, int16, int32, int64, uint, uint8, uint16, uint32, uint64, uintptr, float32, float64:
			return reflect.ValueOf(v).Convert(rt), true
		}
	case reflect.Slice:
		sl, ok := v.([]value)
		if !ok {
			return reflect.Value{}, false
		}
		if sl == nil {
			return reflect.Zero(rt), true
		}
		out := reflect.MakeSlice(rt, len(sl), len(sl))
		for i, e := range sl {
			ev, ok := toGo(fr, e, rt.Elem())
			if !ok {
				return reflect.Value{}, false
			}
			out.Index(i).Set(ev)
		}
		return out, true
	case reflect.Interface:
		itf, ok := v.(iface)
		if !ok {
			return reflect.Value{}, false
		}
		if itf.t == nil {
			return reflect.Zero(rt), true
		}
		if rt == errorIface {
			msg, ok := fr.errorString(itf)
			if !ok {
				return reflect.Value{}, false
			}
			return reflect.ValueOf(fmt.Errorf("%s", msg)), true
		}
		if rt != emptyIface {
			if n, ok := itf.v.(native); ok {
				rv := reflect.ValueOf(n.v)
				if rv.Type().AssignableTo(rt) {
					return rv, true
				}
			}
			return reflect.Value{}, false
		}
		// interface{}: error/Stringer values are rendered by their interpreted methods
		if s, ok := fr.stringerString(itf); ok {
			return reflect.ValueOf(s), true
		}
		switch pv := itf.v.(type) {
		case bool, int, int8, int16, int32, int64, uint, uint8, uint16, uint32, uint64, uintptr, float32, float64, string:
			return reflect.ValueOf(pv), true
		case native:
			return reflect.ValueOf(pv.v), true
		case []value:
			// []string / []byte / []int inside interface{}
			if st, ok := itf.t.Underlying().(*types.Slice); ok {
				if b, ok := st.Elem().Underlying().(*types.Basic); ok {
					var et reflect.Type
					switch b.Kind() {
					case types.String:
						et = reflect.TypeOf("")
					case types.Uint8:
						et = reflect.TypeOf(byte(0))
					case types.Int:
						et = reflect.TypeOf(0)
					}
					if et != nil {
						return toGo(fr, pv, reflect.SliceOf(et))
					}
				}
			}
		case *value:
			if pv == nil {
				return reflect.ValueOf((*int)(nil)), true
			}
			return reflect.ValueOf(pv), true // prints as an address
		}
		return reflect.Value{}, false
	}
	return reflect.Value{}, false
}

// fromGo converts a host value back to an interpreter value of static type t.
func fromGo(fr *frame, rv reflect.Value, t types.Type) value {
	switch ut := t.Underlying().(type) {
	case *types.Basic:
		switch ut.Kind() {
		case types.Bool:
			return rv.Bool()
		case types.String:
			return rv.String()
		case types.Int:
			return int(rv.Int())
		case types.Int8:
			return int8(rv.Int())
		case types.Int16:
			return int16(rv.Int())
		case types.Int32:
			return int32(rv.Int())
		case types.Int64:
			return rv.Int()
		case types.Uint:
			return uint(rv.Uint())
		case types.Uint8:
			return uint8(rv.Uint())
		case types.Uint16:
			return uint16(rv.Uint())
		case types.Uint32:
			return uint32(rv.Uint())
		case types.Uint64:
			return rv.Uint()
		case types.Uintptr:
			return uintptr(rv.Uint())
		case types.Float32:
			return float32(rv.Float())
		case types.Float64:
			return rv.Float()
		}
	case *types.Slice:
		if rv.IsNil() {
			return []value(nil)
		}
		out := make([]value, rv.Len())
		for i := range out {
			out[i] = fromGo(fr, rv.Index(i), ut.Elem())
		}
		return out
	case *types.Interface:
		if rv.IsNil() {
			return iface{}
		}
		if types.Identical(t, types.Universe.Lookup("error").Type()) {
			return fr.i.mkError(rv.Interface().(error).Error())
		}
		return iface{t: types.Typ[types.Invalid], v: native{rv.Interface()}}
	case *types.Pointer, *types.Struct, *types.Signature, *types.Map:
		// opaque host object
		if rv.Kind() == reflect.Ptr && rv.IsNil() {
			return native{nil}
		}
		return native{rv.Interface()}
	}
	panic(enginePanic{fmt.Sprintf("fromGo: unsupported result type %v", t)})
}

// mkError builds an interpreter error value (*errors.errorString) with a concrete
// or symbolic message.
func (i *interpreter) mkError(msg value) value {
	st := structure{msg}
	var cell value = st
	return iface{t: i.errStringPtr, v: &cell}
}

// errorString renders an error value by running its interpreted Error method.
func (fr *frame) errorString(itf iface) (string, bool) {
	if itf.t == nil {
		return "<nil>", true
	}
	m := fr.i.prog.MethodSets.MethodSet(itf.t).Lookup(nil, "Error")
	if m == nil {
		return "", false
	}
	f := fr.i.prog.MethodValue(m)
	if f == nil {
		return "", false
	}
	r := call(fr.i, fr, 0, f, []value{itf.v})
	s, ok := r.(string)
	if !ok {
		return "<symbolic error text>", true
	}
	return s, true
}

func (fr *frame) stringerString(itf iface) (string, bool) {
	if itf.t == nil {
		return "", false
	}
	ms := fr.i.prog.MethodSets.MethodSet(itf.t)
	for _, name := range []string{"Error", "String"} {
		m := ms.Lookup(nil, name)
		if m == nil {
			continue
		}
		sig := m.Type().(*types.Signature)
		if sig.Params().Len() != 0 || sig.Results().Len() != 1 || !types.Identical(sig.Results().At(0).Type(), types.Typ[types.String]) {
			continue
		}
		f := fr.i.prog.MethodValue(m)
		if f == nil {
			continue
		}
		r := call(fr.i, fr, 0, f, []value{itf.v})
		if s, ok := r.(string); ok {
			return s, true
		}
		return "<symbolic>", true
	}
	return "", false
}

func shortName(fn string) string {
	if i := strings.LastIndex(fn, "/"); i >= 0 {
		return fn[i+1:]
	}
	return fn
}
