package symx

import "strconv"

func strconvInt(n int64) string     { return strconv.FormatInt(n, 10) }
func strconvUint(n uint64) string   { return strconv.FormatUint(n, 10) }
func strconvFloat(f float64) string { return strconv.FormatFloat(f, 'g', -1, 64) }
