package symx

import (
	"golang.org/x/tools/go/ssa"
)

// initForeignGlobals gives the few std-library globals that interpreted code
// reads a faithful value (foreign package initialisers are not executed).
func (i *interpreter) initForeignGlobals() {
	i.foreignOK = map[*ssa.Global]bool{}
	set := func(pkg, name string, v value) {
		p := i.prog.ImportedPackage(pkg)
		if p == nil {
			return
		}
		g, ok := p.Members[name].(*ssa.Global)
		if !ok {
			return
		}
		cell := v
		i.globals[g] = &cell
		i.foreignOK[g] = true
	}
	set("io", "EOF", i.mkError("EOF"))
	set("io", "ErrUnexpectedEOF", i.mkError("unexpected EOF"))
	set("os", "Stdout", native{nil})
	set("os", "Stderr", native{nil})
	set("os", "ErrNotExist", i.mkError("file does not exist"))
}
