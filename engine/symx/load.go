package symx

import (
	"fmt"
	"go/types"
	"os"
	"path/filepath"
	"sort"
	"strings"

	"golang.org/x/tools/go/packages"
	"golang.org/x/tools/go/ssa"
	"golang.org/x/tools/go/ssa/ssautil"
)

// Config describes what is loaded and which packages are interpreted from SSA.
type Config struct {
	RepoDir     string            // /repo
	Patterns    []string          // packages to load
	Overlay     map[string][]byte // virtual files (harnesses)
	InterpPkgs  []string          // package path prefixes interpreted from SSA
	InterpFuncs map[string]bool   // additional individual functions interpreted from SSA (fn.String())
}

func (c *Config) interpreted(fn *ssa.Function) bool {
	if fn.Pkg == nil {
		// synthetic wrappers, bound methods, instantiated generics: judge by origin
		if o := fn.Origin(); o != nil && o != fn {
			return c.interpreted(o)
		}
		if fn.Synthetic != "" {
			if m := fn.Object(); m != nil && m.Pkg() != nil {
				return c.pkgInterpreted(m.Pkg().Path()) || c.InterpFuncs[fn.String()]
			}
			return true
		}
		return c.InterpFuncs[fn.String()]
	}
	if c.pkgInterpreted(fn.Pkg.Pkg.Path()) {
		return true
	}
	return c.InterpFuncs[fn.String()]
}

func (c *Config) pkgInterpreted(path string) bool {
	for _, p := range c.InterpPkgs {
		if path == p || strings.HasPrefix(path, p+"/") {
			return true
		}
	}
	return false
}

// Program is a loaded SSA program.
type Program struct {
	Cfg   *Config
	Prog  *ssa.Program
	Pkgs  map[string]*ssa.Package // by import path
	Sizes types.Sizes
}

func Load(cfg *Config) (*Program, error) {
	pc := &packages.Config{
		Mode: packages.LoadAllSyntax,
		Dir:  cfg.RepoDir,
		Env: append(os.Environ(), "GOFLAGS=-mod=mod", "GOPROXY=off", "GOSUMDB=off", "GOTOOLCHAIN=local",
			"GOWORK=off"),
		Overlay: cfg.Overlay,
	}
	initial, err := packages.Load(pc, cfg.Patterns...)
	if err != nil {
		return nil, err
	}
	var errs []string
	packages.Visit(initial, nil, func(p *packages.Package) {
		for _, e := range p.Errors {
			errs = append(errs, e.Error())
		}
	})
	if len(errs) > 0 {
		return nil, fmt.Errorf("load errors:\n%s", strings.Join(errs, "\n"))
	}
	prog, pkgs := ssautil.AllPackages(initial, ssa.InstantiateGenerics|ssa.SanityCheckFunctions*0)
	_ = pkgs
	prog.Build()
	p := &Program{Cfg: cfg, Prog: prog, Pkgs: map[string]*ssa.Package{}, Sizes: &types.StdSizes{WordSize: 8, MaxAlign: 8}}
	for _, sp := range prog.AllPackages() {
		p.Pkgs[sp.Pkg.Path()] = sp
	}
	return p, nil
}

// ExternalCallees lists, for diagnostics, every function outside the interpreted
// set that interpreted code calls statically.
func (p *Program) ExternalCallees() []string {
	seen := map[string]bool{}
	for fn := range ssautil.AllFunctions(p.Prog) {
		if !p.Cfg.interpreted(fn) || fn.Blocks == nil {
			continue
		}
		for _, b := range fn.Blocks {
			for _, ins := range b.Instrs {
				var cc *ssa.CallCommon
				switch ins := ins.(type) {
				case *ssa.Call:
					cc = &ins.Call
				case *ssa.Defer:
					cc = &ins.Call
				case *ssa.Go:
					cc = &ins.Call
				}
				if cc == nil {
					continue
				}
				if callee := cc.StaticCallee(); callee != nil && !p.Cfg.interpreted(callee) {
					seen[callee.String()] = true
				} else if cc.IsInvoke() {
					seen["invoke "+cc.Method.FullName()] = true
				}
			}
		}
	}
	var out []string
	for k := range seen {
		out = append(out, k)
	}
	sort.Strings(out)
	return out
}

// OverlayFromDir maps every *.go file of dir into pkgDir (virtual paths).
func OverlayFromDir(overlay map[string][]byte, dir, pkgDir string) error {
	ents, err := os.ReadDir(dir)
	if err != nil {
		return err
	}
	for _, e := range ents {
		if e.IsDir() || !strings.HasSuffix(e.Name(), ".go") {
			continue
		}
		b, err := os.ReadFile(filepath.Join(dir, e.Name()))
		if err != nil {
			return err
		}
		overlay[filepath.Join(pkgDir, "zz_verif_"+e.Name())] = b
	}
	return nil
}
