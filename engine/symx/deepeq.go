package symx

import (
	"go/types"
)

// deepEq: structural equality following pointers (the native twin compares zzvDump renderings).
// Scalar leaves may be symbolic; the result is then a Bool term.
func (x *exec) deepEq(a, b value, seen map[[2]*value]bool, depth int) value {
	if depth > 200 {
		panic(enginePanic{"zzvSameShape: nesting deeper than 200"})
	}
	switch av := a.(type) {
	case nil:
		return b == nil
	case *value:
		bv, ok := b.(*value)
		if !ok {
			return false
		}
		if av == nil || bv == nil {
			return av == nil && bv == nil
		}
		k := [2]*value{av, bv}
		if seen[k] {
			return true
		}
		seen[k] = true
		return x.deepEq(*av, *bv, seen, depth+1)
	case structure:
		bv, ok := b.(structure)
		if !ok || len(av) != len(bv) {
			return false
		}
		var acc value = true
		for i := range av {
			acc = x.and(acc, x.deepEq(av[i], bv[i], seen, depth+1))
			if c, ok := acc.(bool); ok && !c {
				return false
			}
		}
		return acc
	case array:
		bv, ok := b.(array)
		if !ok || len(av) != len(bv) {
			return false
		}
		var acc value = true
		for i := range av {
			acc = x.and(acc, x.deepEq(av[i], bv[i], seen, depth+1))
			if c, ok := acc.(bool); ok && !c {
				return false
			}
		}
		return acc
	case []value:
		bv, ok := b.([]value)
		if !ok || (av == nil) != (bv == nil) || len(av) != len(bv) {
			return false
		}
		var acc value = true
		for i := range av {
			acc = x.and(acc, x.deepEq(av[i], bv[i], seen, depth+1))
			if c, ok := acc.(bool); ok && !c {
				return false
			}
		}
		return acc
	case iface:
		bv, ok := b.(iface)
		if !ok {
			return false
		}
		if av.t == nil || bv.t == nil {
			return av.t == nil && bv.t == nil
		}
		if !types.Identical(av.t, bv.t) {
			return false
		}
		return x.deepEq(av.v, bv.v, seen, depth+1)
	case *omap:
		bv, ok := b.(*omap)
		if !ok {
			return false
		}
		if av == nil || bv == nil {
			return av == nil && bv == nil
		}
		if len(av.keys) != len(bv.keys) {
			return false
		}
		var acc value = true
		for i, k := range av.keys {
			j := -1
			for jj, k2 := range bv.keys {
				if e, ok := x.equals(av.kt, k, k2).(bool); ok && e {
					j = jj
				} else if !ok {
					panic(enginePanic{"zzvSameShape: symbolic map keys"})
				}
			}
			if j < 0 {
				return false
			}
			acc = x.and(acc, x.deepEq(av.vals[i], bv.vals[j], seen, depth+1))
			if c, ok := acc.(bool); ok && !c {
				return false
			}
		}
		return acc
	case sym:
		if kindOf(b) == types.Invalid {
			return false
		}
		return x.mkSym(types.Bool, x.tb.Eq(av.t, x.term(b)))
	case bool, int, int8, int16, int32, int64, uint, uint8, uint16, uint32, uint64, uintptr, float32, float64, string:
		if bs, ok := b.(sym); ok {
			return x.mkSym(types.Bool, x.tb.Eq(x.term(a), bs.t))
		}
		return a == b
	case native:
		bv, ok := b.(native)
		return ok && av.v == bv.v
	}
	// functions, closures, blobs: identity
	return a == b
}
