package symx

// archive/zip, os and bytes.Buffer at their API boundary (DESIGN.md §4).
//
// Writing: a recorder. zip.NewWriter(w).Create(name)/Write(data)/Close() record the
// entries handed over; the archive becomes the content of the bytes.Buffer or of the
// os.File it was written to. Every call that can fail in the real world returns an
// error according to the fault mode selected by the harness (zzvFaultPath):
//   0 none, 1 MkdirAll fails, 2 os.Create fails, 3 device full: from a solver-chosen
//   write call onwards every write-type call fails and the final flush in
//   zip.Writer.Close always fails (zip buffers, so late surfacing is the normal case),
//   4 none, but the target path already holds a longer file: unless the file is opened
//   with truncation (os.Create, or os.OpenFile with O_TRUNC) the old tail stays behind the
//   new bytes and the file is not a readable archive.
// Reading: zip.NewReader/OpenReader over a recorded archive yield its entries;
// anything else is "not a valid zip file".

import (
	"go/types"

	"gosx/smt"
)

type zipEntry struct {
	name value
	data value
	set  bool
}

type zipRec struct {
	entries []*zipEntry
	closed  bool
}

type fileObj struct {
	path   string
	zip    *zipRec
	closed bool
	stale  bool // opened without truncation over a longer existing file: old bytes follow the new ones
}

type zipW struct {
	rec  *zipRec
	file *fileObj
	buf  *value
}

type entryW struct {
	w *zipW
	e *zipEntry
}

type entryR struct{ e *zipEntry }

type ioWorld struct {
	files     map[string]*fileObj
	bufs      map[*value]*zipRec
	fileOf    map[*value]*zipEntry // *zip.File cell -> entry
	faultKind int
	firstFail *smt.Term
	counter   int
	failed    []string // names of the calls that returned an injected error on this path
	calls     []string
	// bytes.Buffer reuse: a slice obtained from Buffer.Bytes() is valid only until the buffer is
	// reset or written again; bufGen counts the generations of a buffer's content
	bufGen map[*value]int
	pools  map[*value][]value // sync.Pool: the objects put back (Get returns the most recent one)
}

func (x *exec) world() *ioWorld {
	if x.env == nil {
		x.env = map[string]interface{}{}
	}
	w, ok := x.env["io"].(*ioWorld)
	if !ok {
		w = &ioWorld{files: map[string]*fileObj{}, bufs: map[*value]*zipRec{}, fileOf: map[*value]*zipEntry{}, bufGen: map[*value]int{}, pools: map[*value][]value{}}
		x.env["io"] = w
	}
	return w
}

func (i *interpreter) pkgType(pkg, name string) types.Type {
	p := i.prog.ImportedPackage(pkg)
	if p == nil {
		panic(enginePanic{pkg + " is not part of the program"})
	}
	m := p.Members[name]
	if m == nil {
		panic(enginePanic{pkg + "." + name + " not found"})
	}
	return m.Type()
}

// writeFault decides whether the current write-type call fails under the fault mode.
func (x *exec) writeFault(fr *frame, what string, isFinalFlush bool) bool {
	w := x.world()
	w.counter++
	w.calls = append(w.calls, what)
	if w.faultKind != 3 {
		return false
	}
	if isFinalFlush {
		w.failed = append(w.failed, what)
		return true
	}
	if w.firstFail == nil {
		w.firstFail = x.fresh("firstfail", smt.Int)
		x.assume(x.tb.Le(x.tb.IntC(1), w.firstFail))
	}
	if x.decide(x.tb.Le(w.firstFail, x.tb.IntC(int64(w.counter)))) {
		w.failed = append(w.failed, what)
		return true
	}
	return false
}

func fieldIndexOpt(t types.Type, name string) int {
	st := t.Underlying().(*types.Struct)
	for i := 0; i < st.NumFields(); i++ {
		if st.Field(i).Name() == name {
			return i
		}
	}
	return -1
}

func fieldIndex(t types.Type, name string) int {
	st := t.Underlying().(*types.Struct)
	for i := 0; i < st.NumFields(); i++ {
		if st.Field(i).Name() == name {
			return i
		}
	}
	panic(enginePanic{"field " + name + " not found in " + t.String()})
}

// mkZipReader builds a zip.Reader structure whose File list mirrors the archive.
func (x *exec) fillZipReader(i *interpreter, reader structure, rec *zipRec) {
	rt := i.pkgType("archive/zip", "Reader")
	ft := i.pkgType("archive/zip", "File")
	ht := i.pkgType("archive/zip", "FileHeader")
	fi := fieldIndex(rt, "File")
	hi := fieldIndex(ft, "FileHeader")
	ni := fieldIndex(ht, "Name")
	var files []value
	for _, e := range rec.entries {
		cell := new(value)
		*cell = zero(ft)
		hdr := (*cell).(structure)[hi].(structure)
		hdr[ni] = e.name
		// the size fields code may look at: the uncompressed size is the length of the data
		if ui := fieldIndexOpt(ht, "UncompressedSize64"); ui >= 0 && e.set {
			switch d := e.data.(type) {
			case []value:
				hdr[ui] = uint64(len(d))
			case *blob:
				hdr[ui] = x.mkSym(types.Uint64, x.term(x.blobLen(d)))
			case symBytes:
				hdr[ui] = x.mkSym(types.Uint64, x.tb.StrLen(d.t))
			}
		}
		x.world().fileOf[cell] = e
		files = append(files, cell)
	}
	if files == nil {
		files = []value{}
	}
	reader[fi] = files
}

func (x *exec) archiveOf(src value) *zipRec {
	if b, ok := src.(*blob); ok && b.zip != nil {
		if x.staleBlob(b) {
			return nil // the buffer these bytes alias was reused: no longer this archive
		}
		return b.zip
	}
	return nil
}

// staleBlob: the blob aliases the memory of a bytes.Buffer that was reset or rewritten since.
func (x *exec) staleBlob(b *blob) bool {
	return b.bufCell != nil && x.world().bufGen[b.bufCell] != b.bufGen
}

func init() {
	notDir := "not a directory"
	externals["os.MkdirAll"] = func(fr *frame, args []value) value {
		x := fr.i.x
		x.specImpure("os.MkdirAll")
		w := x.world()
		w.calls = append(w.calls, "os.MkdirAll")
		if w.faultKind == 1 {
			w.failed = append(w.failed, "os.MkdirAll")
			return fr.i.mkError("mkdir: " + notDir)
		}
		return iface{}
	}
	externals["os.Create"] = func(fr *frame, args []value) value {
		x := fr.i.x
		x.specImpure("os.Create")
		w := x.world()
		w.calls = append(w.calls, "os.Create")
		if w.faultKind == 2 {
			w.failed = append(w.failed, "os.Create")
			return tuple{native{nil}, fr.i.mkError("open: is a directory")}
		}
		path, _ := args[0].(string)
		f := &fileObj{path: path}
		w.files[path] = f
		return tuple{native{f}, iface{}}
	}
	externals["os.OpenFile"] = func(fr *frame, args []value) value {
		x := fr.i.x
		x.specImpure("os.OpenFile")
		w := x.world()
		w.calls = append(w.calls, "os.OpenFile")
		if w.faultKind == 2 {
			w.failed = append(w.failed, "os.OpenFile")
			return tuple{native{nil}, fr.i.mkError("open: is a directory")}
		}
		path, _ := args[0].(string)
		flag := int(asInt64(x.concretize(args[1], "open flags")))
		const oWRONLY, oRDWR, oAPPEND, oCREATE, oTRUNC = 0x1, 0x2, 0x400, 0x40, 0x200
		if flag&(oWRONLY|oRDWR) == 0 {
			x.abandon("os.OpenFile without write access")
		}
		_, exists := w.files[path]
		exists = exists || w.faultKind == 4
		if !exists && flag&oCREATE == 0 {
			return tuple{native{nil}, fr.i.mkError("open " + path + ": no such file or directory")}
		}
		f := &fileObj{path: path}
		if exists && (flag&oTRUNC == 0 || flag&oAPPEND != 0) {
			f.stale = true
		}
		w.files[path] = f
		return tuple{native{f}, iface{}}
	}
	externals["(*os.File).Close"] = func(fr *frame, args []value) value {
		x := fr.i.x
		x.specImpure("(*os.File).Close")
		n, _ := args[0].(native)
		f, _ := n.v.(*fileObj)
		if f == nil {
			return fr.i.mkError("invalid argument")
		}
		x.world().calls = append(x.world().calls, "(*os.File).Close")
		f.closed = true
		return iface{}
	}
	externals["archive/zip.NewWriter"] = func(fr *frame, args []value) value {
		x := fr.i.x
		x.specImpure("zip.NewWriter")
		itf := args[0].(iface)
		zw := &zipW{rec: &zipRec{}}
		switch v := itf.v.(type) {
		case native:
			f, ok := v.v.(*fileObj)
			if !ok {
				x.abandon("zip.NewWriter over an un-modelled writer")
			}
			zw.file = f
		case *value:
			zw.buf = v
			w := x.world()
			if _, used := w.bufs[v]; used {
				w.bufGen[v]++ // writing into a buffer that already held an archive
				delete(w.bufs, v)
			}
		default:
			x.abandon("zip.NewWriter over an un-modelled writer")
		}
		return native{zw}
	}
	externals["(*archive/zip.Writer).Create"] = func(fr *frame, args []value) value {
		x := fr.i.x
		x.specImpure("zip.Create")
		zw := args[0].(native).v.(*zipW)
		if x.writeFault(fr, "zip.Writer.Create", false) {
			return tuple{iface{}, fr.i.mkError("write: no space left on device")}
		}
		e := &zipEntry{name: args[1]}
		zw.rec.entries = append(zw.rec.entries, e)
		wt := types.NewPointer(fr.i.pkgType("archive/zip", "fileWriter"))
		return tuple{iface{wt, native{&entryW{zw, e}}}, iface{}}
	}
	externals["(*archive/zip.fileWriter).Write"] = func(fr *frame, args []value) value {
		x := fr.i.x
		x.specImpure("zip entry Write")
		ew := args[0].(native).v.(*entryW)
		if x.writeFault(fr, "zip entry Write", false) {
			return tuple{0, fr.i.mkError("write: no space left on device")}
		}
		if ew.e.set {
			x.abandon("more than one Write per zip entry")
		}
		ew.e.data, ew.e.set = args[1], true
		var n value
		switch d := args[1].(type) {
		case []value:
			n = len(d)
		case *blob:
			n = x.blobLen(d)
		case symBytes:
			n = x.mkSym(types.Int, x.tb.StrLen(d.t))
		default:
			n = 0
		}
		return tuple{n, iface{}}
	}
	externals["(*archive/zip.Writer).Close"] = func(fr *frame, args []value) value {
		x := fr.i.x
		x.specImpure("zip.Close")
		zw := args[0].(native).v.(*zipW)
		if x.writeFault(fr, "zip.Writer.Close", true) {
			return fr.i.mkError("write: no space left on device")
		}
		zw.rec.closed = true
		if zw.file != nil {
			zw.file.zip = zw.rec
		}
		if zw.buf != nil {
			x.world().bufs[zw.buf] = zw.rec
		}
		return iface{}
	}
	externals["(*bytes.Buffer).Bytes"] = func(fr *frame, args []value) value {
		x := fr.i.x
		p, _ := args[0].(*value)
		if rec, ok := x.world().bufs[p]; ok {
			x.nblob++
			return &blob{zip: rec, id: x.nblob, typ: nil, bufCell: p, bufGen: x.world().bufGen[p]}
		}
		x.abandon("bytes.Buffer.Bytes on a buffer that does not hold a recorded archive")
		return nil
	}
	externals["(*bytes.Buffer).Reset"] = func(fr *frame, args []value) value {
		x := fr.i.x
		x.specImpure("bytes.Buffer.Reset")
		p, _ := args[0].(*value)
		w := x.world()
		if _, used := w.bufs[p]; used {
			w.bufGen[p]++
			delete(w.bufs, p)
		}
		return nil
	}
	// sync.Pool: Get returns the object put back most recently (the case that matters for
	// aliasing; the real pool may also drop objects, which only makes reuse rarer), else New().
	externals["(*sync.Pool).Get"] = func(fr *frame, args []value) value {
		x := fr.i.x
		x.specImpure("sync.Pool.Get")
		p, _ := args[0].(*value)
		w := x.world()
		if st := w.pools[p]; len(st) > 0 {
			v := st[len(st)-1]
			w.pools[p] = st[:len(st)-1]
			return v
		}
		pt := fr.i.pkgType("sync", "Pool")
		fn := (*p).(structure)[fieldIndex(pt, "New")]
		if fn == nil {
			return iface{}
		}
		if cl, isFn := fn.(*closure); isFn && cl == nil {
			return iface{}
		}
		return call(fr.i, fr, 0, fn, nil)
	}
	externals["(*sync.Pool).Put"] = func(fr *frame, args []value) value {
		x := fr.i.x
		x.specImpure("sync.Pool.Put")
		p, _ := args[0].(*value)
		w := x.world()
		w.pools[p] = append(w.pools[p], args[1])
		return nil
	}
	externals["io.NopCloser"] = func(fr *frame, args []value) value {
		itf, _ := args[0].(iface)
		return iface{fr.i.pkgType("io", "nopCloser"), itf.v}
	}
	externals["(io.nopCloser).Close"] = func(fr *frame, args []value) value { return iface{} }
	externals["(io.nopCloserWriterTo).Close"] = func(fr *frame, args []value) value { return iface{} }
	externals["(*bytes.Reader).Close"] = func(fr *frame, args []value) value { return iface{} }
	externals["io.ReadAll"] = func(fr *frame, args []value) value {
		x := fr.i.x
		itf, _ := args[0].(iface)
		n, ok := itf.v.(native)
		if !ok {
			x.abandon("io.ReadAll over an un-modelled reader")
		}
		switch r := n.v.(type) {
		case *entryR:
			if !r.e.set {
				return tuple{[]value{}, iface{}}
			}
			return tuple{r.e.data, iface{}}
		case *readerObj:
			return tuple{r.src, iface{}}
		}
		x.abandon("io.ReadAll over an un-modelled reader")
		return nil
	}
	openArchive := func(fr *frame, rec *zipRec, rt types.Type) value {
		x := fr.i.x
		cell := new(value)
		*cell = zero(rt)
		st := (*cell).(structure)
		if rt == fr.i.pkgType("archive/zip", "ReadCloser") {
			ri := fieldIndex(rt, "Reader")
			x.fillZipReader(fr.i, st[ri].(structure), rec)
		} else {
			x.fillZipReader(fr.i, st, rec)
		}
		return cell
	}
	externals["archive/zip.NewReader"] = func(fr *frame, args []value) value {
		x := fr.i.x
		itf, _ := args[0].(iface)
		n, ok := itf.v.(native)
		if !ok {
			x.abandon("zip.NewReader over an un-modelled reader")
		}
		r, ok := n.v.(*readerObj)
		if !ok {
			x.abandon("zip.NewReader over an un-modelled reader")
		}
		rec := x.archiveOf(r.src)
		if rec == nil || !rec.closed {
			return tuple{(*value)(nil), fr.i.mkError("zip: not a valid zip file")}
		}
		return tuple{openArchive(fr, rec, fr.i.pkgType("archive/zip", "Reader")), iface{}}
	}
	externals["archive/zip.OpenReader"] = func(fr *frame, args []value) value {
		x := fr.i.x
		path, ok := args[0].(string)
		if !ok {
			x.abandon("zip.OpenReader with a symbolic path")
		}
		f := x.world().files[path]
		if f == nil {
			return tuple{(*value)(nil), fr.i.mkError("open " + path + ": no such file or directory")}
		}
		if f.zip == nil || !f.zip.closed || f.stale {
			return tuple{(*value)(nil), fr.i.mkError("zip: not a valid zip file")}
		}
		return tuple{openArchive(fr, f.zip, fr.i.pkgType("archive/zip", "ReadCloser")), iface{}}
	}
	externals["(*archive/zip.ReadCloser).Close"] = func(fr *frame, args []value) value { return iface{} }
	externals["(*archive/zip.File).Open"] = func(fr *frame, args []value) value {
		x := fr.i.x
		p, _ := args[0].(*value)
		e := x.world().fileOf[p]
		if e == nil {
			x.abandon("zip.File.Open on an un-modelled file")
		}
		rt := types.NewPointer(fr.i.pkgType("archive/zip", "checksumReader"))
		return tuple{iface{rt, native{&entryR{e}}}, iface{}}
	}
	externals["(*archive/zip.checksumReader).Close"] = func(fr *frame, args []value) value { return iface{} }
}
