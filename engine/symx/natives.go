package symx

import (
	"bytes"
	"fmt"
	"go/types"
	"math"
	"math/big"
	"path/filepath"
	"regexp"
	"sort"
	"strconv"
	"strings"
	"time"

	"gosx/smt"
)

// DefaultInterpFuncs: individual std functions interpreted from their SSA.
func DefaultInterpFuncs() map[string]bool {
	return map[string]bool{
		"(*errors.errorString).Error": true,
		"errors.New":                  true,
	}
}

const wz = "github.com/zerx-lab/wordZero/pkg/document."

func init() {
	// ---- natives: exact, run on concrete arguments ----
	for k, v := range map[string]interface{}{
		"strings.Contains":                       strings.Contains,
		"strings.Count":                          strings.Count,
		"strings.Fields":                         strings.Fields,
		"strings.HasPrefix":                      strings.HasPrefix,
		"strings.HasSuffix":                      strings.HasSuffix,
		"strings.Index":                          strings.Index,
		"strings.LastIndex":                      strings.LastIndex,
		"strings.Repeat":                         strings.Repeat,
		"strings.ReplaceAll":                     strings.ReplaceAll,
		"strings.Replace":                        strings.Replace,
		"strings.Split":                          strings.Split,
		"strings.SplitAfter":                     strings.SplitAfter,
		"strings.SplitN":                         strings.SplitN,
		"strings.Join":                           strings.Join,
		"strings.ToLower":                        strings.ToLower,
		"strings.ToUpper":                        strings.ToUpper,
		"strings.TrimPrefix":                     strings.TrimPrefix,
		"strings.TrimSuffix":                     strings.TrimSuffix,
		"strings.TrimSpace":                      strings.TrimSpace,
		"strings.Trim":                           strings.Trim,
		"strings.TrimLeft":                       strings.TrimLeft,
		"strings.TrimRight":                      strings.TrimRight,
		"strings.EqualFold":                      strings.EqualFold,
		"strings.Title":                          strings.Title,
		"strconv.Atoi":                           strconv.Atoi,
		"strconv.Itoa":                           strconv.Itoa,
		"strconv.FormatBool":                     strconv.FormatBool,
		"strconv.FormatFloat":                    strconv.FormatFloat,
		"strconv.FormatInt":                      strconv.FormatInt,
		"strconv.ParseFloat":                     strconv.ParseFloat,
		"strconv.ParseInt":                       strconv.ParseInt,
		"strconv.ParseBool":                      strconv.ParseBool,
		"strconv.Quote":                          strconv.Quote,
		"path/filepath.Base":                     filepath.Base,
		"path/filepath.Dir":                      filepath.Dir,
		"path/filepath.Ext":                      filepath.Ext,
		"path/filepath.IsAbs":                    filepath.IsAbs,
		"path/filepath.Join":                     filepath.Join,
		"math.Abs":                               math.Abs,
		"math.Round":                             math.Round,
		"math.Floor":                             math.Floor,
		"math.Ceil":                              math.Ceil,
		"math.Max":                               math.Max,
		"math.Min":                               math.Min,
		"fmt.Sprintf":                            fmt.Sprintf,
		"fmt.Sprint":                             fmt.Sprint,
		"regexp.MustCompile":                     regexp.MustCompile,
		"regexp.QuoteMeta":                       regexp.QuoteMeta,
		"(*regexp.Regexp).FindAllString":         (*regexp.Regexp).FindAllString,
		"(*regexp.Regexp).FindAllStringSubmatch": (*regexp.Regexp).FindAllStringSubmatch,
		"(*regexp.Regexp).FindAllStringSubmatchIndex": (*regexp.Regexp).FindAllStringSubmatchIndex,
		"(*regexp.Regexp).FindAllSubmatch":            (*regexp.Regexp).FindAllSubmatch,
		"(*regexp.Regexp).FindString":                 (*regexp.Regexp).FindString,
		"(*regexp.Regexp).FindStringIndex":            (*regexp.Regexp).FindStringIndex,
		"(*regexp.Regexp).FindStringSubmatch":         (*regexp.Regexp).FindStringSubmatch,
		"(*regexp.Regexp).MatchString":                (*regexp.Regexp).MatchString,
		"(*regexp.Regexp).ReplaceAllString":           (*regexp.Regexp).ReplaceAllString,
		"bytes.Equal":                                 bytes.Equal,
	} {
		natives[k] = v
	}

	// ---- no-op stubs: logging, locking ----
	nop := func(fr *frame, args []value) value { return nil }
	for _, n := range []string{"Debugf", "Infof", "Warnf", "Errorf", "Debug", "Info", "Warn", "Error", "SetGlobalLevel", "SetGlobalOutput"} {
		externals[wz+n] = nop
	}
	for _, n := range []string{"(*sync.RWMutex).Lock", "(*sync.RWMutex).RLock", "(*sync.RWMutex).RUnlock", "(*sync.RWMutex).Unlock",
		"(*sync.Mutex).Lock", "(*sync.Mutex).Unlock", "(*log.Logger).Printf", "(*log.Logger).SetOutput", "(*log.Logger).Println", "log.Printf", "log.Println"} {
		externals[n] = nop
	}
	externals["log.New"] = func(fr *frame, args []value) value { return native{nil} }
	externals["os.Getwd"] = func(fr *frame, args []value) value { return tuple{"/zzv/cwd", iface{}} }
	// goldmark's parser package is not interpreted; its context keys are plain counters
	ctxKeys := 0
	externals["github.com/yuin/goldmark/parser.NewContextKey"] = func(fr *frame, args []value) value {
		ctxKeys++
		return ctxKeys
	}

	// ---- errors ----
	externals["fmt.Errorf"] = func(fr *frame, args []value) value {
		msg := sprintfModel(fr, args)
		return fr.i.mkError(msg)
	}
	symModels["fmt.Sprintf"] = func(fr *frame, args []value) value { return sprintfModel(fr, args) }

	// ---- strings.Builder: content kept as a (possibly symbolic) string in field 1 ----
	sbGet := func(fr *frame, recv value) (structure, value) {
		p := recv.(*value)
		if p == nil {
			panic("runtime error: invalid memory address or nil pointer dereference")
		}
		st := (*p).(structure)
		cur := st[1]
		if _, isSlice := cur.([]value); isSlice {
			cur = ""
		}
		return st, cur
	}
	externals["(*strings.Builder).WriteString"] = func(fr *frame, args []value) value {
		st, cur := sbGet(fr, args[0])
		fr.i.x.onStore(&st[1])
		st[1] = fr.i.x.concat(cur, args[1])
		return tuple{fr.i.x.strlen(args[1]), iface{}}
	}
	externals["(*strings.Builder).WriteRune"] = func(fr *frame, args []value) value {
		st, cur := sbGet(fr, args[0])
		r, ok := args[1].(int32)
		if !ok {
			fr.i.x.abandon("strings.Builder.WriteRune with symbolic rune")
		}
		s := string(r)
		fr.i.x.onStore(&st[1])
		st[1] = fr.i.x.concat(cur, s)
		return tuple{len(s), iface{}}
	}
	externals["(*strings.Builder).WriteByte"] = func(fr *frame, args []value) value {
		st, cur := sbGet(fr, args[0])
		b, ok := args[1].(uint8)
		if !ok {
			fr.i.x.abandon("strings.Builder.WriteByte with symbolic byte")
		}
		fr.i.x.onStore(&st[1])
		st[1] = fr.i.x.concat(cur, string([]byte{b}))
		return iface{}
	}
	externals["(*strings.Builder).Write"] = func(fr *frame, args []value) value {
		st, cur := sbGet(fr, args[0])
		s := conv(fr.i.x, types.Typ[types.String], types.NewSlice(types.Typ[types.Byte]), args[1])
		fr.i.x.onStore(&st[1])
		st[1] = fr.i.x.concat(cur, s)
		return tuple{fr.i.x.strlen(s), iface{}}
	}
	externals["(*strings.Builder).String"] = func(fr *frame, args []value) value {
		_, cur := sbGet(fr, args[0])
		return cur
	}
	externals["(*strings.Builder).Len"] = func(fr *frame, args []value) value {
		_, cur := sbGet(fr, args[0])
		return fr.i.x.strlen(cur)
	}
	externals["(*strings.Builder).Reset"] = func(fr *frame, args []value) value {
		st, _ := sbGet(fr, args[0])
		fr.i.x.onStore(&st[1])
		st[1] = ""
		return nil
	}
	externals["(*strings.Builder).Grow"] = nop

	// ---- sort.Slice with an interpreted less function ----
	externals["sort.Slice"] = func(fr *frame, args []value) value {
		sl, ok := args[0].(iface).v.([]value)
		if !ok {
			fr.i.x.abandon("sort.Slice on non-slice")
		}
		less := args[1]
		// stable insertion sort driven by less(i, j) on the live slice (as sort.Slice does through swaps)
		for i := 1; i < len(sl); i++ {
			for j := i; j > 0; j-- {
				r := call(fr.i, fr, 0, less, []value{j, j - 1})
				b, isB := r.(bool)
				if !isB {
					b = fr.i.x.decide(r.(sym).t)
				}
				if !b {
					break
				}
				sl[j], sl[j-1] = sl[j-1], sl[j]
			}
		}
		return nil
	}
	externals["sort.Strings"] = func(fr *frame, args []value) value {
		sl := args[0].([]value)
		for _, e := range sl {
			if _, ok := e.(string); !ok {
				fr.i.x.abandon("sort.Strings on symbolic strings")
			}
		}
		sort.Slice(sl, func(i, j int) bool { return sl[i].(string) < sl[j].(string) })
		return nil
	}

	// ---- regexp with interpreted callback ----
	externals["(*regexp.Regexp).ReplaceAllStringFunc"] = func(fr *frame, args []value) value {
		x := fr.i.x
		re := args[0].(native).v.(*regexp.Regexp)
		cs, ok := x.semiOf(args[1])
		if !ok {
			d := fmt.Sprintf("%T", args[1])
			if sv, ok := args[1].(sym); ok {
				d = sv.t.Op
				for _, a := range sv.t.Args {
					d += " " + a.Op
				}
			}
			x.abandon("regexp.ReplaceAllStringFunc on a symbolic subject that is not a semi-symbolic string (" + d + ")")
		}
		var ms [][]int
		if hasSymChar(cs) {
			ms = x.reOnSemi(cs, "ReplaceAllStringFunc", func(s string) interface{} { return re.FindAllStringIndex(s, -1) }, sameIntss).([][]int)
		} else {
			ms = re.FindAllStringIndex(marked(cs, 0), -1)
		}
		var out value = ""
		from := 0
		for _, m := range ms {
			out = x.concat(out, x.semiVal(cs[from:m[0]]))
			out = x.concat(out, call(fr.i, fr, 0, args[2], []value{x.semiVal(cs[m[0]:m[1]])}))
			from = m[1]
		}
		return x.concat(out, x.semiVal(cs[from:]))
	}

	// ---- fmt.Sscanf on concrete input with *int / *string targets ----
	externals["fmt.Sscanf"] = func(fr *frame, args []value) value {
		x := fr.i.x
		str, ok1 := args[0].(string)
		format, ok2 := args[1].(string)
		if !ok1 || !ok2 {
			x.abandon("fmt.Sscanf on a symbolic string")
		}
		targets, _ := args[2].([]value)
		goArgs := make([]interface{}, len(targets))
		for i, t := range targets {
			itf := t.(iface)
			pt, ok := itf.t.Underlying().(*types.Pointer)
			if !ok {
				x.abandon("fmt.Sscanf target is not a pointer")
			}
			switch basicKind(pt.Elem()) {
			case types.Int:
				goArgs[i] = new(int)
			case types.String:
				goArgs[i] = new(string)
			default:
				x.abandon("fmt.Sscanf target type " + pt.Elem().String())
			}
		}
		n, err := fmt.Sscanf(str, format, goArgs...)
		for i, t := range targets {
			p := t.(iface).v.(*value)
			if i >= n {
				break
			}
			x.onStore(p)
			switch g := goArgs[i].(type) {
			case *int:
				*p = *g
			case *string:
				*p = *g
			}
		}
		if err != nil {
			return tuple{n, fr.i.mkError(err.Error())}
		}
		return tuple{n, iface{}}
	}

	// ---- time ----
	externals["time.Now"] = func(fr *frame, args []value) value { return native{time.Date(2024, 1, 2, 3, 4, 5, 0, time.UTC)} }
	externals["(time.Time).Format"] = func(fr *frame, args []value) value {
		t, _ := args[0].(native).v.(time.Time)
		return t.Format(args[1].(string))
	}
	externals["(time.Time).IsZero"] = func(fr *frame, args []value) value {
		if n, ok := args[0].(native); ok {
			if t, ok := n.v.(time.Time); ok {
				return t.IsZero()
			}
		}
		return true
	}

	// ---- symbolic string models ----
	symModels["strings.HasPrefix"] = func(fr *frame, args []value) value {
		x := fr.i.x
		return x.mkSym(types.Bool, x.tb.PrefixOf(x.term(args[1]), x.term(args[0])))
	}
	symModels["strings.HasSuffix"] = func(fr *frame, args []value) value {
		x := fr.i.x
		return x.mkSym(types.Bool, x.tb.SuffixOf(x.term(args[1]), x.term(args[0])))
	}
	symModels["strings.Contains"] = func(fr *frame, args []value) value {
		x := fr.i.x
		return x.mkSym(types.Bool, x.tb.Contains(x.term(args[0]), x.term(args[1])))
	}
	symModels["strings.Index"] = func(fr *frame, args []value) value {
		x := fr.i.x
		return x.mkSym(types.Int, x.tb.IndexOf(x.term(args[0]), x.term(args[1]), x.tb.IntC(0)))
	}
	symModels["strings.TrimPrefix"] = func(fr *frame, args []value) value {
		x, tb := fr.i.x, fr.i.x.tb
		s, p := x.term(args[0]), x.term(args[1])
		return x.mkSym(types.String, tb.Ite(tb.PrefixOf(p, s), tb.Substr(s, tb.StrLen(p), tb.Sub(tb.StrLen(s), tb.StrLen(p))), s))
	}
	symModels["strings.TrimSuffix"] = func(fr *frame, args []value) value {
		x, tb := fr.i.x, fr.i.x.tb
		s, p := x.term(args[0]), x.term(args[1])
		return x.mkSym(types.String, tb.Ite(tb.SuffixOf(p, s), tb.Substr(s, tb.IntC(0), tb.Sub(tb.StrLen(s), tb.StrLen(p))), s))
	}
	symModels["strings.TrimSpace"] = func(fr *frame, args []value) value {
		// s = pre ++ r ++ post with pre, post white space and r neither starting nor ending with it
		// (ASCII white space; strings with other Unicode spaces at the ends are outside the model)
		x, tb := fr.i.x, fr.i.x.tb
		s := x.term(args[0])
		const ws = `(re.union (str.to_re " ") (str.to_re "\u{9}") (str.to_re "\u{a}") (str.to_re "\u{b}") (str.to_re "\u{c}") (str.to_re "\u{d}"))`
		pre, r, post := x.fresh("tspre", smt.Str), x.fresh("tsr", smt.Str), x.fresh("tspost", smt.Str)
		x.addDef(tb.Eq(s, tb.Concat(pre, r, post)))
		x.addDef(tb.InRe(pre, "(re.* "+ws+")"))
		x.addDef(tb.InRe(post, "(re.* "+ws+")"))
		x.addDef(tb.Not(tb.InRe(r, "(re.++ "+ws+" re.all)")))
		x.addDef(tb.Not(tb.InRe(r, "(re.++ re.all "+ws+")")))
		x.noteAssume("strings.TrimSpace model: ASCII white space only")
		return x.mkSym(types.String, r)
	}
	symModels["strings.ReplaceAll"] = func(fr *frame, args []value) value {
		x, tb := fr.i.x, fr.i.x.tb
		return x.mkSym(types.String, tb.ReplaceAll(x.term(args[0]), x.term(args[1]), x.term(args[2])))
	}
	symModels["strings.Repeat"] = func(fr *frame, args []value) value {
		x := fr.i.x
		n := asInt64(x.concretize(args[1], "strings.Repeat count"))
		if n < 0 {
			panic("strings: negative Repeat count")
		}
		var out value = ""
		for i := int64(0); i < n; i++ {
			out = x.concat(out, args[0])
		}
		return out
	}
	symModels["strconv.Itoa"] = func(fr *frame, args []value) value {
		x, tb := fr.i.x, fr.i.x.tb
		t := x.term(args[0])
		return x.mkSym(types.String, tb.Itoa(t))
	}
	symModels["strconv.Atoi"] = func(fr *frame, args []value) value {
		// (n, err): digit strings (optionally signed) parse; anything else is an error.
		x, tb := fr.i.x, fr.i.x.tb
		s := x.term(args[0])
		if v, ok := canonicalIntOf(tb, s); ok {
			return tuple{x.mkSym(types.Int, v), iface{}}
		}
		neg := tb.PrefixOf(tb.StrC("-"), s)
		body := tb.Ite(neg, tb.Substr(s, tb.IntC(1), tb.StrLen(s)), s)
		n := tb.StrToInt(body)
		okT := tb.And(tb.Ge(n, tb.IntC(0)), tb.Le(tb.StrLen(body), tb.IntC(18)))
		if x.decide(okT) {
			return tuple{x.mkSym(types.Int, tb.Ite(neg, tb.Neg(n), n)), iface{}}
		}
		// note: "+5" and >18-digit strings also parse in Go; they fall in this branch as errors
		// only when the harness does not exclude them; the decision records the assumption.
		x.noteAssume("strconv.Atoi model: strings that are not [-]digits{1,18} are treated as parse errors ('+' sign and longer digit strings are outside the model)")
		return tuple{0, fr.i.mkError("strconv.Atoi: parsing: invalid syntax")}
	}
	symModels["strconv.ParseFloat"] = func(fr *frame, args []value) value {
		x, tb := fr.i.x, fr.i.x.tb
		s := x.term(args[0])
		// a joined string ite(c, A, B): resolve c first (one-sided under the path condition in the usual case)
		for s.Op == "ite" {
			if _, ok := canonicalIntOf(tb, s); ok {
				break
			}
			if x.decide(s.Args[0]) {
				s = s.Args[1]
			} else {
				s = s.Args[2]
			}
		}
		if s.IsConst() {
			f, err := strconv.ParseFloat(s.S, 64)
			if err != nil {
				return tuple{f, fr.i.mkError(err.Error())}
			}
			return tuple{f, iface{}}
		}
		if v, ok := canonicalIntOf(tb, s); ok {
			return tuple{sym{types.Float64, tb.ToReal(v)}, iface{}}
		}
		// arbitrary symbolic string: an over-approximation decoupled from the string theory - the
		// call either fails or yields some value of bounded magnitude (NaN/Inf spellings and larger
		// magnitudes are outside the float model)
		x.noteAssume("strconv.ParseFloat model: on an arbitrary symbolic string the call either fails or returns an arbitrary value of magnitude <= 10^7 (over-approximation; larger magnitudes, NaN and Inf are outside the float model)")
		if x.decide(x.fresh("pferr", smt.Bool)) {
			return tuple{float64(0), fr.i.mkError("strconv.ParseFloat: parsing: invalid syntax")}
		}
		pv := x.fresh("pfval", smt.Real)
		x.assume(tb.Le(tb.Abs(pv), tb.FloatC(1e7)))
		return tuple{sym{types.Float64, pv}, iface{}}
	}
	symModels["strconv.FormatInt"] = func(fr *frame, args []value) value {
		x := fr.i.x
		if b, ok := args[1].(int); !ok || b != 10 {
			x.abandon("strconv.FormatInt with symbolic value and base != 10")
		}
		return symModels["strconv.Itoa"](fr, args[:1])
	}
	symModels["math.Abs"] = func(fr *frame, args []value) value {
		x := fr.i.x
		return x.mkSym(types.Float64, x.tb.Abs(x.term(args[0])))
	}
	symModels["math.Round"] = func(fr *frame, args []value) value {
		// round half away from zero, exact on the abstract real value
		x, tb := fr.i.x, fr.i.x.tb
		t := x.term(args[0])
		half := tb.RatC(big.NewRat(1, 2))
		pos := tb.ToReal(tb.ToInt(tb.Add(t, half)))
		neg := tb.Neg(tb.ToReal(tb.ToInt(tb.Add(tb.Neg(t), half))))
		return x.mkSym(types.Float64, tb.Ite(tb.Ge(t, tb.FloatC(0)), pos, neg))
	}
	// filepath.Ext(s): s = dir ++ base, base has no '/', dir is "" or ends in '/';
	// base = stem ++ ext, ext is "" (base has no '.') or '.' followed by dot-free text.
	// The fresh variables are functionally determined by s (definitional extension).
	splitBase := func(fr *frame, sv value) (*smt.Term, *smt.Term) {
		x, tb := fr.i.x, fr.i.x.tb
		s := x.term(sv)
		dir, base := x.fresh("dir", smt.Str), x.fresh("base", smt.Str)
		x.assume(tb.And(tb.Eq(s, tb.Concat(dir, base)), tb.Not(tb.Contains(base, tb.StrC("/"))),
			tb.Or(tb.Eq(dir, tb.StrC("")), tb.SuffixOf(tb.StrC("/"), dir))))
		return dir, base
	}
	symModels["path/filepath.Ext"] = func(fr *frame, args []value) value {
		x, tb := fr.i.x, fr.i.x.tb
		_, base := splitBase(fr, args[0])
		stem, ext := x.fresh("stem", smt.Str), x.fresh("ext", smt.Str)
		dot := tb.StrC(".")
		x.assume(tb.And(tb.Eq(base, tb.Concat(stem, ext)),
			tb.Or(tb.And(tb.Eq(ext, tb.StrC("")), tb.Not(tb.Contains(base, dot))),
				tb.And(tb.PrefixOf(dot, ext), tb.Not(tb.Contains(tb.Substr(ext, tb.IntC(1), tb.StrLen(ext)), dot))))))
		x.stubs["path/filepath.Ext (symbolic model: last dot-suffix of the last '/'-separated element)"] = true
		return x.mkSym(types.String, ext)
	}
	bytesEqual := func(fr *frame, args []value) value {
		x := fr.i.x
		ba, aok := args[0].(*blob)
		bb, bok := args[1].(*blob)
		if aok != bok {
			return false // Marshal output / archive vs. other bytes: never equal in the model
		}
		if x.staleBlob(ba) || x.staleBlob(bb) {
			return false // bytes of a reused buffer: whatever is there now, not this archive
		}
		if ba == bb {
			return true
		}
		if (ba.zip != nil) != (bb.zip != nil) || ba.prefix != bb.prefix || ba.indent != bb.indent {
			return false
		}
		if ba.zip != nil {
			return ba.zip == bb.zip
		}
		if ba.typ == nil || bb.typ == nil || !types.Identical(ba.typ, bb.typ) {
			return false
		}
		// same marshaller input => same bytes (encoding/xml is a function of the value)
		return x.deepEq(ba.snap, bb.snap, map[[2]*value]bool{}, 0)
	}
	externals["bytes.Equal"] = func(fr *frame, args []value) value {
		_, aok := args[0].(*blob)
		_, bok := args[1].(*blob)
		if aok || bok {
			return bytesEqual(fr, args)
		}
		return callNativeByName(fr, "bytes.Equal", args)
	}
	symModels["bytes.Equal"] = func(fr *frame, args []value) value {
		x := fr.i.x
		a, b := x.bytesTerm(args[0]), x.bytesTerm(args[1])
		return x.mkSym(types.Bool, x.tb.Eq(a, b))
	}
}

func (x *exec) noteAssume(s string) {
	for _, a := range x.assumeNotes {
		if a == s {
			return
		}
	}
	x.assumeNotes = append(x.assumeNotes, s)
}

// bytesTerm renders a []byte value (concrete, element-wise symbolic, or symBytes) as a string term.
func (x *exec) bytesTerm(v value) *smt.Term {
	switch v := v.(type) {
	case symBytes:
		return v.t
	case []value:
		return x.term(x.bytesToSymString(v))
	}
	panic(enginePanic{fmt.Sprintf("bytesTerm: %T", v)})
}

func (x *exec) concat(a, b value) value {
	as, aok := a.(string)
	bs, bok := b.(string)
	if aok && bok {
		return as + bs
	}
	return x.mkSym(types.String, x.tb.Concat(x.term(a), x.term(b)))
}

func (x *exec) strlen(a value) value {
	if s, ok := a.(string); ok {
		return len(s)
	}
	return x.mkSym(types.Int, x.tb.StrLen(x.term(a)))
}

// canonicalIntOf recognises terms that are decimal renderings of an Int term:
// str.from_int(k) with k >= 0 known from construction, or ite(k<0, "-"++from_int(-k), from_int(k)).
func canonicalIntOf(tb *smt.Table, s *smt.Term) (*smt.Term, bool) {
	if s.Op == "str.from_int" {
		return s.Args[0], true
	}
	if k, ok := tb.ItoaArg(s); ok {
		return k, true
	}
	if s.IsConst() {
		if n, err := strconv.ParseInt(s.S, 10, 64); err == nil && strconv.FormatInt(n, 10) == s.S {
			return tb.IntC(n), true
		}
		return nil, false
	}
	if s.Op == "ite" {
		a, ok1 := canonicalIntOf(tb, s.Args[1])
		b, ok2 := canonicalIntOf(tb, s.Args[2])
		if ok1 && ok2 {
			return tb.Ite(s.Args[0], a, b), true
		}
		return nil, false
	}
	if s.Op == "ite" && s.Args[2].Op == "str.from_int" {
		k := s.Args[2].Args[0]
		if s.Args[0] == tb.Lt(k, tb.IntC(0)) && s.Args[1] == tb.Concat(tb.StrC("-"), tb.StrFromInt(tb.Neg(k))) {
			return k, true
		}
	}
	return nil, false
}

// sprintfModel renders fmt.Sprintf(format, args...) where some args may be
// symbolic. The format must be concrete. Supported verbs with symbolic
// operands: %s %v %d %q(no) %.0f %.1f(no) ; everything concrete is delegated to fmt.
func sprintfModel(fr *frame, args []value) value {
	x := fr.i.x
	tb := x.tb
	format, ok := args[0].(string)
	if !ok {
		x.abandon("fmt.Sprintf/Errorf with a symbolic format string")
	}
	var vargs []value
	if len(args) > 1 && args[1] != nil {
		vargs, _ = args[1].([]value)
	}
	var out value = ""
	ai := 0
	for i := 0; i < len(format); {
		c := format[i]
		if c != '%' {
			j := i
			for j < len(format) && format[j] != '%' {
				j++
			}
			out = x.concat(out, format[i:j])
			i = j
			continue
		}
		// parse verb
		j := i + 1
		for j < len(format) && strings.IndexByte("+-# 0123456789.", format[j]) >= 0 {
			j++
		}
		if j >= len(format) {
			out = x.concat(out, format[i:])
			break
		}
		spec := format[i : j+1]
		verb := format[j]
		i = j + 1
		if verb == '%' {
			out = x.concat(out, "%")
			continue
		}
		if ai >= len(vargs) {
			out = x.concat(out, "%!"+string(verb)+"(MISSING)")
			continue
		}
		arg := vargs[ai]
		ai++
		itf, _ := arg.(iface)
		if !hasSym(itf.v) {
			if es, isErr := errString(fr, itf); isErr {
				// error/Stringer with possibly symbolic text
				if verb == 'v' || verb == 's' || verb == 'w' {
					out = x.concat(out, es)
					continue
				}
			}
			gv, ok := toGo(fr, itf, emptyIface)
			if !ok {
				// opaque aggregates: render a stable placeholder (text is not compared by any property)
				out = x.concat(out, "<value>")
				continue
			}
			sp := spec
			if verb == 'w' {
				sp = spec[:len(spec)-1] + "v"
			}
			out = x.concat(out, fmt.Sprintf(sp, gv.Interface()))
			continue
		}
		sv := itf.v.(sym)
		switch {
		case (verb == 's' || verb == 'v') && sv.k == types.String && spec == "%"+string(verb):
			out = x.concat(out, sv)
		case (verb == 'd' || verb == 'v') && isIntKind(sv.k) && spec == "%"+string(verb):
			t := sv.t
			out = x.concat(out, x.mkSym(types.String, tb.Itoa(t)))
		case verb == 'f' && isFloatKind(sv.k) && spec == "%.0f":
			// k = round-to-nearest integer of the real value (ties: either neighbour)
			k := x.fresh("rk", smt.Int)
			half := tb.RatC(big.NewRat(1, 2))
			x.assume(tb.And(tb.Le(tb.Sub(tb.ToReal(k), sv.t), half), tb.Le(tb.Sub(sv.t, tb.ToReal(k)), half)))
			out = x.concat(out, x.mkSym(types.String, tb.Itoa(k)))
		case (verb == 't' || verb == 'v') && sv.k == types.Bool:
			out = x.concat(out, x.mkSym(types.String, tb.Ite(sv.t, tb.StrC("true"), tb.StrC("false"))))
		case verb == 'q' && sv.k == types.String:
			out = x.concat(out, x.concat(x.concat("\"", sv), "\"")) // approximation: no escaping (diagnostic text only)
		default:
			// formatting of a symbolic value with an unsupported verb: opaque text
			o := x.fresh("fmt", smt.Str)
			out = x.concat(out, sym{types.String, o})
		}
	}
	return out
}

// errString returns the (possibly symbolic) text of an error/Stringer value.
func errString(fr *frame, itf iface) (value, bool) {
	if itf.t == nil {
		return nil, false
	}
	ms := fr.i.prog.MethodSets.MethodSet(itf.t)
	for _, name := range []string{"Error", "String"} {
		m := ms.Lookup(nil, name)
		if m == nil {
			continue
		}
		sig := m.Type().(*types.Signature)
		if sig.Params().Len() != 0 || sig.Results().Len() != 1 || !types.Identical(sig.Results().At(0).Type(), types.Typ[types.String]) {
			continue
		}
		f := fr.i.prog.MethodValue(m)
		if f == nil {
			continue
		}
		return call(fr.i, fr, 0, f, []value{itf.v}), true
	}
	return nil, false
}
