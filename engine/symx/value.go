// Copyright 2013 The Go Authors. All rights reserved.
// Use of this source code is governed by a BSD-style
// license that can be found in the LICENSE file.
//
// Derived from golang.org/x/tools/go/ssa/interp (v0.29.0); modified for gosx:
// symbolic scalars, ordered maps, deep value copies.

package symx

// Values: as in go/ssa/interp, all interpreter values are boxed in the empty
// interface. Dynamic types: bool, sized ints/floats, string, sym (symbolic
// scalar), symBytes (immutable symbolic []byte), *omap, []value (slices),
// iface, structure, array, *value (pointers), *ssa.Function/*ssa.Builtin/
// *closure, tuple, iter, bad, **deferred, native (opaque host value).

import (
	"bytes"
	"fmt"
	"go/types"
	"io"
	"strings"

	"golang.org/x/tools/go/ssa"
	"gosx/smt"
)

type value interface{}

type tuple []value

type array []value

type iface struct {
	t types.Type // never an "untyped" type
	v value
}

type structure []value

// byteBuf is the result of make([]byte, n) with a symbolic n that is the length of a blob or of
// symbolic bytes: a buffer waiting for the whole-slice copy that fills it (the Go idiom
// dst := make([]byte, len(src)); copy(dst, src)). Once filled it stands for its content.
type byteBuf struct {
	n       *smt.Term
	content value // nil until copied into; then *blob or symBytes
}

// norm resolves a filled byteBuf to its content.
func norm(v value) value {
	if bb, ok := v.(*byteBuf); ok && bb != nil && bb.content != nil {
		return bb.content
	}
	return v
}

// symBytes is an immutable []byte whose content is a symbolic string.
type symBytes struct{ t *smt.Term }

// For map, array, *array, slice, string or channel.
type iter interface {
	// next returns a Tuple (key, value, ok).
	// key and value are unaliased, e.g. copies of the sequence element.
	next() tuple
}

type closure struct {
	Fn  *ssa.Function
	Env []value
}

type bad struct{}

func mustDeref(t types.Type) types.Type {
	if p, ok := t.Underlying().(*types.Pointer); ok {
		return p.Elem()
	}
	panic(fmt.Sprintf("mustDeref: %v is not a pointer", t))
}

func sameType(x, y types.Type) bool {
	return types.Identical(x, y)
}

// equals returns x == y per Go's equivalence for type t: a bool, or a symbolic Bool.
func (ex *exec) equals(t types.Type, x, y value) value {
	if isSym(x) || isSym(y) {
		return ex.mkSym(types.Bool, ex.tb.Eq(ex.term(x), ex.term(y)))
	}
	switch x := x.(type) {
	case bool:
		return x == y.(bool)
	case int:
		return x == y.(int)
	case int8:
		return x == y.(int8)
	case int16:
		return x == y.(int16)
	case int32:
		return x == y.(int32)
	case int64:
		return x == y.(int64)
	case uint:
		return x == y.(uint)
	case uint8:
		return x == y.(uint8)
	case uint16:
		return x == y.(uint16)
	case uint32:
		return x == y.(uint32)
	case uint64:
		return x == y.(uint64)
	case uintptr:
		return x == y.(uintptr)
	case float32:
		return x == y.(float32)
	case float64:
		return x == y.(float64)
	case complex64:
		return x == y.(complex64)
	case complex128:
		return x == y.(complex128)
	case string:
		return x == y.(string)
	case *value:
		return x == y.(*value)
	case chan value:
		return x == y.(chan value)
	case structure:
		st := t.Underlying().(*types.Struct)
		ys := y.(structure)
		var acc value = true
		for i := range x {
			if f := st.Field(i); f.Name() != "_" {
				acc = ex.and(acc, ex.equals(f.Type(), x[i], ys[i]))
				if b, ok := acc.(bool); ok && !b {
					return false
				}
			}
		}
		return acc
	case array:
		et := t.Underlying().(*types.Array).Elem()
		ya := y.(array)
		var acc value = true
		for i := range x {
			acc = ex.and(acc, ex.equals(et, x[i], ya[i]))
			if b, ok := acc.(bool); ok && !b {
				return false
			}
		}
		return acc
	case iface:
		yi := y.(iface)
		if x.t == nil || yi.t == nil {
			return x.t == nil && yi.t == nil
		}
		if !types.Identical(x.t, yi.t) {
			return false
		}
		return ex.equals(x.t, x.v, yi.v)
	case *ssa.Function:
		if yf, ok := y.(*ssa.Function); ok {
			return x == yf
		}
		return false
	case native:
		return x.v == y.(native).v
	}

	// Since map, func and slice don't support comparison, this
	// case is only reachable if one of x or y is literally nil
	// (handled in eqnil) or via interface{} values.
	panic(fmt.Sprintf("comparing uncomparable type %s", t))
}

func (ex *exec) and(a, b value) value {
	if ab, ok := a.(bool); ok {
		if !ab {
			return false
		}
		return b
	}
	if bb, ok := b.(bool); ok {
		if !bb {
			return false
		}
		return a
	}
	return ex.mkSym(types.Bool, ex.tb.And(a.(sym).t, b.(sym).t))
}

func (ex *exec) or(a, b value) value {
	return ex.not(ex.and(ex.not(a), ex.not(b)))
}

func (ex *exec) not(a value) value {
	if ab, ok := a.(bool); ok {
		return !ab
	}
	return ex.mkSym(types.Bool, ex.tb.Not(a.(sym).t))
}

// iteVal selects between two scalar values under a possibly symbolic condition.
func (ex *exec) iteVal(c, a, b value) value {
	if cb, ok := c.(bool); ok {
		if cb {
			return a
		}
		return b
	}
	k := kindOf(a)
	if k == types.Invalid {
		k = kindOf(b)
	}
	return ex.mkSym(k, ex.tb.Ite(c.(sym).t, ex.term(a), ex.term(b)))
}

// copyVal deep-copies the value-typed parts (structs, arrays) of v; pointers,
// slices, maps and interfaces' referents are shared, as in Go.
func copyVal(v value) value {
	switch v := v.(type) {
	case structure:
		a := make(structure, len(v))
		for i := range v {
			a[i] = copyVal(v[i])
		}
		return a
	case array:
		a := make(array, len(v))
		for i := range v {
			a[i] = copyVal(v[i])
		}
		return a
	case iface:
		return iface{v.t, copyVal(v.v)}
	}
	return v
}

// load returns the value of type T in *addr.
func load(T types.Type, addr *value) value {
	switch T := T.Underlying().(type) {
	case *types.Struct:
		v := (*addr).(structure)
		a := make(structure, len(v))
		for i := range a {
			a[i] = load(T.Field(i).Type(), &v[i])
		}
		return a
	case *types.Array:
		v := (*addr).(array)
		a := make(array, len(v))
		for i := range a {
			a[i] = load(T.Elem(), &v[i])
		}
		return a
	default:
		return *addr
	}
}

// store stores value v of type T into *addr.
func store(T types.Type, addr *value, v value) {
	switch T := T.Underlying().(type) {
	case *types.Struct:
		lhs := (*addr).(structure)
		rhs := v.(structure)
		for i := range lhs {
			store(T.Field(i).Type(), &lhs[i], rhs[i])
		}
	case *types.Array:
		lhs := (*addr).(array)
		rhs := v.(array)
		for i := range lhs {
			store(T.Elem(), &lhs[i], rhs[i])
		}
	default:
		*addr = v
	}
}

// Prints in the style of built-in println.
func writeValue(buf *bytes.Buffer, v value) {
	switch v := v.(type) {
	case nil, bool, int, int8, int16, int32, int64, uint, uint8, uint16, uint32, uint64, uintptr, float32, float64, complex64, complex128, string:
		fmt.Fprintf(buf, "%v", v)
	case sym:
		buf.WriteString(v.String())
	case *omap:
		buf.WriteString("map[")
		if v != nil {
			for i := range v.keys {
				if i > 0 {
					buf.WriteString(" ")
				}
				writeValue(buf, v.keys[i])
				buf.WriteString(":")
				writeValue(buf, v.vals[i])
			}
		}
		buf.WriteString("]")
	case *value:
		if v == nil {
			buf.WriteString("<nil>")
		} else {
			fmt.Fprintf(buf, "%p", v)
		}
	case iface:
		fmt.Fprintf(buf, "(%s, ", v.t)
		writeValue(buf, v.v)
		buf.WriteString(")")
	case structure:
		buf.WriteString("{")
		for i, e := range v {
			if i > 0 {
				buf.WriteString(" ")
			}
			writeValue(buf, e)
		}
		buf.WriteString("}")
	case array:
		buf.WriteString("[")
		for i, e := range v {
			if i > 0 {
				buf.WriteString(" ")
			}
			writeValue(buf, e)
		}
		buf.WriteString("]")
	case []value:
		buf.WriteString("[")
		for i, e := range v {
			if i > 0 {
				buf.WriteString(" ")
			}
			writeValue(buf, e)
		}
		buf.WriteString("]")
	case *ssa.Function, *ssa.Builtin, *closure:
		fmt.Fprintf(buf, "%p", v) // (an address)
	case tuple:
		buf.WriteString("(")
		for i, e := range v {
			if i > 0 {
				buf.WriteString(", ")
			}
			writeValue(buf, e)
		}
		buf.WriteString(")")
	default:
		fmt.Fprintf(buf, "<%T>", v)
	}
}

// Implements printing of Go values in the style of built-in println.
func toString(v value) string {
	var b bytes.Buffer
	writeValue(&b, v)
	return b.String()
}

// ------------------------------------------------------------------------
// Iterators

type stringIter struct {
	*strings.Reader
	i int
}

func (it *stringIter) next() tuple {
	okv := make(tuple, 3)
	ch, n, err := it.ReadRune()
	ok := err != io.EOF
	okv[0] = ok
	if ok {
		okv[1] = it.i
		okv[2] = ch
	}
	it.i += n
	return okv
}
