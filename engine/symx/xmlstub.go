package symx

// encoding/xml at its API boundary (DESIGN.md §4): Marshal returns a blob that
// carries a deep snapshot of the marshalled value; the bytes themselves are not
// modelled.

import (
	"go/types"

	"gosx/smt"
)

type blob struct {
	prefix string
	snap   value      // deep snapshot of the marshalled value
	typ    types.Type // its static type
	lenVar *smt.Term
	strVar *smt.Term
	id     int
	raw    bool    // contains caller text spliced through an innerxml field
	indent bool    // produced by MarshalIndent
	zip    *zipRec // the blob is a recorded ZIP archive, not XML
	tokens []xtok
	// token stream of the value computed at Marshal time from the live value (eagerTokens)
	valTokens []xtok
	eager     bool
	// the bytes alias the content of this bytes.Buffer at this generation (iostub.go)
	bufCell *value
	bufGen  int
}

// snapVal deep-copies v including everything it points to.
func snapVal(v value, depth int) value {
	if depth > 200 {
		panic(enginePanic{"snapshot: value nesting deeper than 200 (cyclic?)"})
	}
	switch v := v.(type) {
	case structure:
		a := make(structure, len(v))
		for i := range v {
			a[i] = snapVal(v[i], depth+1)
		}
		return a
	case array:
		a := make(array, len(v))
		for i := range v {
			a[i] = snapVal(v[i], depth+1)
		}
		return a
	case iface:
		return iface{v.t, snapVal(v.v, depth+1)}
	case *value:
		if v == nil {
			return v
		}
		c := snapVal(*v, depth+1)
		return &c
	case []value:
		if v == nil {
			return v
		}
		a := make([]value, len(v))
		for i := range v {
			a[i] = snapVal(v[i], depth+1)
		}
		return a
	case *omap:
		if v == nil {
			return v
		}
		m := &omap{kt: v.kt}
		for i := range v.keys {
			m.keys = append(m.keys, snapVal(v.keys[i], depth+1))
			m.vals = append(m.vals, snapVal(v.vals[i], depth+1))
		}
		return m
	}
	return v
}

func (x *exec) newBlob(v value, t types.Type) *blob {
	x.nblob++
	return &blob{snap: snapVal(v, 0), typ: t, id: x.nblob}
}

// isBytesLen: t is the length term of a blob or of symbolic bytes.
func (x *exec) isBytesLen(t *smt.Term) bool {
	if x.lenVars[t] {
		return true
	}
	return t.Op == "str.len"
}

func (x *exec) blobLen(b *blob) value {
	if b.lenVar == nil {
		b.lenVar = x.fresh("bloblen", smt.Int)
		if x.lenVars == nil {
			x.lenVars = map[*smt.Term]bool{}
		}
		x.lenVars[b.lenVar] = true
		x.assume(x.tb.Lt(x.tb.IntC(int64(len(b.prefix))), b.lenVar))
	}
	return sym{types.Int, b.lenVar}
}

func (x *exec) blobString(b *blob) value {
	if b.strVar == nil {
		b.strVar = x.fresh("blobstr", smt.Str)
		x.assume(x.tb.Eq(x.tb.StrLen(b.strVar), x.term(x.blobLen(b))))
		if b.prefix != "" {
			x.assume(x.tb.PrefixOf(x.tb.StrC(b.prefix), b.strVar))
		}
	}
	return sym{types.String, b.strVar}
}

// eagerTokens computes the token stream of a fresh Marshal blob right away, from the LIVE value:
// hand-written MarshalXML methods thus run on the objects the caller passed (their side effects
// on the document are real effects of saving), and the stream is what encoding/xml would have
// produced at this moment. If the model cannot express the value the stream is left to be
// derived from the snapshot on demand (and the path is abandoned then, if it is ever needed).
func (x *exec) eagerTokens(fr *frame, b *blob, live value) {
	defer func() {
		if r := recover(); r != nil {
			if _, isAbandon := r.(abandonPanic); isAbandon {
				b.valTokens, b.eager = nil, false
				return
			}
			panic(r)
		}
	}()
	m := &xmlModeler{fr: fr, indent: b.indent}
	m.marshal(live, b.typ, "", nil)
	b.valTokens, b.eager = m.out, true
	if m.raw {
		b.raw = true
	}
}

func init() {
	externals["encoding/xml.Marshal"] = func(fr *frame, args []value) value {
		itf := args[0].(iface)
		b := fr.i.x.newBlob(itf.v, itf.t)
		fr.i.x.eagerTokens(fr, b, itf.v)
		return tuple{b, iface{}}
	}
	externals["encoding/xml.MarshalIndent"] = func(fr *frame, args []value) value {
		itf := args[0].(iface)
		b := fr.i.x.newBlob(itf.v, itf.t)
		if ind, ok := args[2].(string); ok && ind != "" {
			b.indent = true
		}
		fr.i.x.eagerTokens(fr, b, itf.v)
		return tuple{b, iface{}}
	}
}
