package symx

import (
	"fmt"
	"go/token"
	"go/types"
	"os"
	"runtime"
	"runtime/debug"
	"sort"
	"strings"
	"sync"
	"time"

	"golang.org/x/tools/go/ssa"
	"gosx/smt"
)

// Options of one harness exploration.
type Options struct {
	Tier       string // quick | thorough
	Workers    int
	MaxPaths   int
	MaxSteps   int
	MaxDepth   int
	TimeoutMS  int // per solver query
	Deadline   time.Duration
	SolverPath string
	Verbose    bool
	KnownKeys  map[string]bool
	NoMerge    bool
}

type Witness struct {
	Label   string
	Model   *smt.Model
	Nondets []NondetVal
	Prefix  []Decision
	// clauses that failed on this path inside a listed known-finding region (tolerated natively)
	KnownClauses []string
}

// Report of one harness exploration.
type Report struct {
	Harness      string
	Stats        Stats
	Failures     []Failure // deduplicated: one per (clause, known key)
	FailCount    map[string]int
	Witnesses    []Witness
	Reached      map[string]int
	Notes        []string
	Funcs        []string
	Bounds       map[string]int64
	Assumptions  []string
	Incomplete   string // non-empty: exploration did not cover the whole bounded space
	SolverTime   time.Duration
	Queries      int
	CacheHits    int
	Wall         time.Duration
	FloatErrVars int
	EndReasons   map[string]int
	StubsUsed    map[string]bool
	Merges       int
	MergeFail    map[string]int
}

const maxModelsPerClause = 6

func (p *Program) newInterp(x *exec) *interpreter {
	i := &interpreter{
		prog:    p.Prog,
		globals: make(map[*ssa.Global]*value),
		sizes:   p.Sizes,
		x:       x,
		cfg:     p.Cfg,
	}
	if rp := p.Prog.ImportedPackage("runtime"); rp != nil {
		i.runtimeErrorString = rp.Type("errorString").Object().Type()
	}
	if ep := p.Prog.ImportedPackage("errors"); ep != nil {
		i.errStringPtr = types.NewPointer(ep.Type("errorString").Object().Type())
	}
	for _, pkg := range p.Prog.AllPackages() {
		for _, m := range pkg.Members {
			if g, ok := m.(*ssa.Global); ok {
				cell := zero(mustDeref(g.Type()))
				i.globals[g] = &cell
			}
		}
	}
	i.initForeignGlobals()
	return i
}

// runInit runs the init functions of the interpreted packages, dependencies first.
func (p *Program) runInit(i *interpreter) {
	var pkgs []*ssa.Package
	for _, sp := range p.Prog.AllPackages() {
		if p.Cfg.pkgInterpreted(sp.Pkg.Path()) {
			pkgs = append(pkgs, sp)
		}
	}
	sort.Slice(pkgs, func(a, b int) bool { return pkgs[a].Pkg.Path() < pkgs[b].Pkg.Path() })
	// the ssa init function calls the inits of imports itself (guarded); foreign ones are skipped in callNative.
	for _, sp := range pkgs {
		if f := sp.Func("init"); f != nil {
			call(i, nil, token.NoPos, f, nil)
		}
	}
}

type runResult struct {
	siblings [][]Decision
	failures []Failure
	reached  []string
	wits     []Witness
	ended    string
	notes    []string
	calls    map[string]bool
	bounds   map[string]int64
	assumes  []string
	floatErr int
	stubs    map[string]bool
	merges   int
	mfail    map[string]int
}

// runOne executes the harness once under the decision prefix.
func (p *Program) runOne(h *ssa.Function, prefix []Decision, solver *smt.Solver, opt *Options, st *Stats, needWit func(string) bool) (res runResult) {
	x := &exec{
		tb: smt.NewTable(), solver: solver, prefix: prefix, stats: st,
		floatMag: 22, maxSteps: opt.MaxSteps, maxDepth: opt.MaxDepth,
		bounds: map[string]int64{}, calls: map[string]bool{}, tier: opt.Tier, needWit: needWit,
		knownKeys: opt.KnownKeys, stubs: map[string]bool{},
		freshCells: map[*value]bool{}, freshMaps: map[*omap]bool{}, noMergeAt: map[*ssa.If]bool{}, mergeFail: map[string]int{},
		noMerge: opt.NoMerge, noSlice: os.Getenv("VERIF_NOSLICE") != "",
	}
	i := p.newInterp(x)
	x.curPos = func() string { return i.position() }
	defer func() {
		r := recover()
		switch r := r.(type) {
		case nil:
		case pathEnd:
			x.ended = r.why
		case abandonPanic:
			x.ended = "abandoned: " + r.why
			st.Abandoned++
			st.AbandonReasons[r.why+" @ "+i.position()]++
		case enginePanic:
			x.ended = "engine error: " + r.msg
			st.Abandoned++
			st.AbandonReasons["ENGINE: "+r.msg+" @ "+i.position()]++
		case targetPanic:
			msg := "explicit panic"
			if itf, ok := r.v.(iface); ok {
				if s, ok := itf.v.(string); ok {
					msg = s
				} else if itf.t != nil {
					msg = "panic(" + itf.t.String() + ")"
				}
			}
			x.concretePanicAt(msg)
			x.ended = "panic"
		case runtime.Error:
			if isEngineBug(r) {
				x.ended = "engine error: " + r.Error()
				st.Abandoned++
				st.AbandonReasons["ENGINE: "+r.Error()+" @ "+i.position()+"\n"+string(debug.Stack())]++
			} else {
				x.concretePanicAt(r.Error())
				x.ended = "panic"
			}
		case string:
			// the interpreter raises target runtime errors as strings
			if strings.HasPrefix(r, "engine:") {
				x.ended = r
				st.Abandoned++
				st.AbandonReasons[r]++
			} else {
				x.concretePanicAt(r)
				x.ended = "panic"
			}
		default:
			x.ended = fmt.Sprintf("engine error: unexpected panic %T %v", r, r)
			st.Abandoned++
			st.AbandonReasons[x.ended+"\n"+string(debug.Stack())]++
		}
		res = runResult{siblings: x.siblings, failures: x.failures, reached: x.reached, wits: x.wits, ended: x.ended,
			notes: x.notes, calls: x.calls, bounds: x.bounds, assumes: x.assumeNotes, floatErr: x.floatErrVars, stubs: x.stubs, merges: x.merges, mfail: x.mergeFail}
	}()
	p.runInit(i)
	x.inHarness = true
	call(i, nil, token.NoPos, h, nil)
	return
}

// isEngineBug: host runtime errors raised inside the engine's own code while it
// was not emulating a target operation are engine bugs. The interpreter relies
// on host nil-dereference / index panics to emulate target panics, so only type
// assertion failures on interpreter values are classified as engine bugs.
func isEngineBug(e runtime.Error) bool {
	s := e.Error()
	return strings.Contains(s, "interface conversion: symx.value") || strings.Contains(s, "interface conversion: interface {} is")
}

func (x *exec) concretePanicAt(msg string) {
	if !x.checking() {
		return // already recorded by the run that created this prefix
	}
	x.concretePanic(msg)
}

// Explore runs the bounded symbolic exploration of one harness function.
func (p *Program) Explore(h *ssa.Function, opt Options) *Report {
	t0 := time.Now()
	if opt.Workers <= 0 {
		opt.Workers = 4
	}
	rep := &Report{Harness: h.Name(), FailCount: map[string]int{}, Reached: map[string]int{}, Bounds: map[string]int64{},
		EndReasons: map[string]int{}, StubsUsed: map[string]bool{}, MergeFail: map[string]int{}}
	rep.Stats.AbandonReasons = map[string]int{}
	rep.Stats.InconclusiveClauses = map[string]int{}
	var mu sync.Mutex
	stack := [][]Decision{nil}
	active := 0
	funcs := map[string]bool{}
	assumes := map[string]bool{}
	seenFail := map[string]int{}
	witnessed := map[string]bool{}
	cond := sync.NewCond(&mu)
	stop := false
	needWit := func(label string) bool {
		mu.Lock()
		defer mu.Unlock()
		if witnessed[label] {
			return false
		}
		witnessed[label] = true
		return true
	}
	var wg sync.WaitGroup
	for w := 0; w < opt.Workers; w++ {
		wg.Add(1)
		go func() {
			defer wg.Done()
			solver := smt.NewZ3(opt.SolverPath, opt.TimeoutMS)
			defer solver.Close()
			st := Stats{AbandonReasons: map[string]int{}, InconclusiveClauses: map[string]int{}}
			for {
				mu.Lock()
				for len(stack) == 0 && active > 0 && !stop {
					cond.Wait()
				}
				if stop || (len(stack) == 0 && active == 0) {
					mu.Unlock()
					cond.Broadcast()
					break
				}
				prefix := stack[len(stack)-1]
				stack = stack[:len(stack)-1]
				active++
				mu.Unlock()

				r := p.runOne(h, prefix, solver, &opt, &st, needWit)

				mu.Lock()
				active--
				st.Paths++
				stack = append(stack, r.siblings...)
				for _, f := range r.failures {
					k := f.Clause + "|" + f.Known
					rep.FailCount[k]++
					// up to maxModelsPerClause counterexamples per clause, from different paths: the
					// native replay rig cannot realise every environment fault the stubs allow, so a
					// clause is reported when any of its counterexamples reproduces
					lim := maxModelsPerClause
					if f.Known != "" {
						lim = 2
					}
					if seenFail[k] < lim {
						seenFail[k]++
						rep.Failures = append(rep.Failures, f)
					}
				}
				for _, l := range r.reached {
					rep.Reached[l]++
				}
				rep.Witnesses = append(rep.Witnesses, r.wits...)
				for f := range r.calls {
					funcs[f] = true
				}
				for k, v := range r.bounds {
					rep.Bounds[k] = v
				}
				for _, a := range r.assumes {
					assumes[a] = true
				}
				for s := range r.stubs {
					rep.StubsUsed[s] = true
				}
				rep.FloatErrVars += r.floatErr
				rep.Merges += r.merges
				for k, v := range r.mfail {
					rep.MergeFail[k] += v
				}
				if r.ended != "" {
					e := r.ended
					if len(e) > 120 {
						e = e[:120]
					}
					rep.EndReasons[e]++
				} else {
					rep.EndReasons["returned"]++
				}
				for _, n := range r.notes {
					if len(rep.Notes) < 20 {
						rep.Notes = append(rep.Notes, n)
					}
				}
				total := rep.Stats.Paths + st.Paths
				if opt.MaxPaths > 0 && total >= opt.MaxPaths && (len(stack) > 0) {
					rep.Incomplete = fmt.Sprintf("path budget %d exhausted with %d prefixes pending", opt.MaxPaths, len(stack))
					stop = true
				}
				if opt.Deadline > 0 && time.Since(t0) > opt.Deadline && len(stack) > 0 {
					rep.Incomplete = fmt.Sprintf("deadline %v reached with %d prefixes pending", opt.Deadline, len(stack))
					stop = true
				}
				if opt.Verbose && st.Paths%200 == 0 {
					fmt.Fprintf(os.Stderr, "  [%s] worker paths=%d pending=%d\n", h.Name(), st.Paths, len(stack))
				}
				mu.Unlock()
				cond.Broadcast()
			}
			mu.Lock()
			mergeStats(&rep.Stats, &st)
			rep.SolverTime += solver.Time
			rep.Queries += solver.Queries
			rep.CacheHits += solver.CacheHits
			mu.Unlock()
		}()
	}
	wg.Wait()
	for f := range funcs {
		rep.Funcs = append(rep.Funcs, f)
	}
	sort.Strings(rep.Funcs)
	for a := range assumes {
		rep.Assumptions = append(rep.Assumptions, a)
	}
	sort.Strings(rep.Assumptions)
	sort.Slice(rep.Failures, func(i, j int) bool { return rep.Failures[i].Clause < rep.Failures[j].Clause })
	sort.Slice(rep.Witnesses, func(i, j int) bool { return rep.Witnesses[i].Label < rep.Witnesses[j].Label })
	rep.Wall = time.Since(t0)
	return rep
}

func mergeStats(a, b *Stats) {
	a.Paths += b.Paths
	a.Decisions += b.Decisions
	a.Obligations += b.Obligations
	a.Discharged += b.Discharged
	a.Violations += b.Violations
	a.KnownHits += b.KnownHits
	a.Inconclusive += b.Inconclusive
	a.Abandoned += b.Abandoned
	a.UnwindFailures += b.UnwindFailures
	a.InfeasiblePaths += b.InfeasiblePaths
	for k, v := range b.AbandonReasons {
		a.AbandonReasons[k] += v
	}
	for k, v := range b.InconclusiveClauses {
		a.InconclusiveClauses[k] += v
	}
}

func (i *interpreter) position() string {
	fr := i.top
	for fr != nil {
		if fr.cur != nil && fr.cur.Pos().IsValid() {
			pos := i.prog.Fset.Position(fr.cur.Pos())
			return fmt.Sprintf("%s:%d (%s)", shortName(pos.Filename), pos.Line, fr.fn.Name())
		}
		if fr.caller == nil {
			return fr.fn.String()
		}
		fr = fr.caller
	}
	return "?"
}
