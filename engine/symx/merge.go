package symx

// State merging at symbolic branches (DESIGN.md §2.4, "diamond merging").
//
// At an `If` on a symbolic condition whose two sides are both feasible, the
// engine first tries to run both arms speculatively up to the immediate
// post-dominator of the branch (or the function exit) and to join their effects
// as ite(c, ·, ·): phi values at the join, the returned value, and every store
// into pre-existing memory. If anything happens inside an arm that cannot be
// joined (a fork, an impure stub, a panic, non-scalar values that differ, a
// nondet intrinsic, ...) the speculation is rolled back completely and the
// branch is explored by ordinary forking. Merging never changes what is checked,
// only how many solver paths are needed: obligations raised inside an arm are
// decided under path-condition AND arm-condition.

import (
	"fmt"
	"go/types"
	"sync"

	"golang.org/x/tools/go/ssa"
	"gosx/smt"
)

type specAbort struct{ why string }

type writeRec struct {
	addr *value
	old  value
}

type specState struct {
	wlog   []writeRec
	defs   []*smt.Term // definitional constraints introduced in the current arm
	guard  *smt.Term
	budget int
	fr     *frame
	blocks map[*ssa.BasicBlock]bool // blocks of fr executed in this arm (incl. nested arms)
}

// ---- post-dominators ----

type pdomInfo struct {
	ipdom map[*ssa.BasicBlock]*ssa.BasicBlock // nil value = function exit
	ok    map[*ssa.BasicBlock]bool
}

var pdomCache = map[*ssa.Function]*pdomInfo{}
var pdomMu sync.Mutex

func postDominators(fn *ssa.Function) *pdomInfo {
	pdomMu.Lock()
	defer pdomMu.Unlock()
	if p, ok := pdomCache[fn]; ok {
		return p
	}
	n := len(fn.Blocks)
	exit := n
	words := (n + 1 + 63) / 64
	full := make([]uint64, words)
	for i := 0; i <= n; i++ {
		full[i/64] |= 1 << (uint(i) % 64)
	}
	sets := make([][]uint64, n+1)
	for i := range sets {
		sets[i] = append([]uint64(nil), full...)
	}
	sets[exit] = make([]uint64, words)
	sets[exit][exit/64] |= 1 << (uint(exit) % 64)
	succs := func(b *ssa.BasicBlock) []int {
		if len(b.Succs) == 0 {
			return []int{exit}
		}
		var out []int
		for _, s := range b.Succs {
			out = append(out, s.Index)
		}
		return out
	}
	changed := true
	for changed {
		changed = false
		for bi := n - 1; bi >= 0; bi-- {
			b := fn.Blocks[bi]
			nw := append([]uint64(nil), full...)
			for _, s := range succs(b) {
				for w := range nw {
					nw[w] &= sets[s][w]
				}
			}
			nw[bi/64] |= 1 << (uint(bi) % 64)
			for w := range nw {
				if nw[w] != sets[bi][w] {
					changed = true
				}
			}
			sets[bi] = nw
		}
	}
	has := func(s []uint64, i int) bool { return s[i/64]&(1<<(uint(i)%64)) != 0 }
	count := func(s []uint64) int {
		c := 0
		for i := 0; i <= n; i++ {
			if has(s, i) {
				c++
			}
		}
		return c
	}
	info := &pdomInfo{ipdom: map[*ssa.BasicBlock]*ssa.BasicBlock{}, ok: map[*ssa.BasicBlock]bool{}}
	for bi, b := range fn.Blocks {
		if !has(sets[bi], exit) {
			continue // cannot reach the exit (infinite loop): no merging here
		}
		cb := count(sets[bi])
		for d := 0; d <= n; d++ {
			if d == bi || !has(sets[bi], d) {
				continue
			}
			if count(sets[d]) == cb-1 {
				info.ok[b] = true
				if d == exit {
					info.ipdom[b] = nil
				} else {
					info.ipdom[b] = fn.Blocks[d]
				}
				break
			}
		}
	}
	pdomCache[fn] = info
	return info
}

// ---- mergeability of values ----

func (x *exec) mergeVal(c *smt.Term, a, b value, depth int) (value, bool) {
	if depth > 40 {
		return nil, false
	}
	switch av := a.(type) {
	case nil:
		if b == nil {
			return nil, true
		}
		return nil, false
	case sym:
		switch bv := b.(type) {
		case sym:
			if av.k != bv.k {
				return nil, false
			}
			if av.t == bv.t {
				return a, true
			}
			return x.mkSym(av.k, x.tb.Ite(c, av.t, bv.t)), true
		default:
			if kindOf(b) == av.k {
				return x.mkSym(av.k, x.tb.Ite(c, av.t, x.term(b))), true
			}
		}
		return nil, false
	case bool, int, int8, int16, int32, int64, uint, uint8, uint16, uint32, uint64, uintptr, float32, float64, string:
		if bs, ok := b.(sym); ok {
			if kindOf(a) == bs.k {
				return x.mkSym(bs.k, x.tb.Ite(c, x.term(a), bs.t)), true
			}
			return nil, false
		}
		if kindOf(a) != kindOf(b) || kindOf(a) == types.Invalid {
			return nil, false
		}
		if a == b {
			return a, true
		}
		return x.mkSym(kindOf(a), x.tb.Ite(c, x.term(a), x.term(b))), true
	case *value:
		if bv, ok := b.(*value); ok && av == bv {
			return a, true
		}
		return nil, false
	case structure:
		bv, ok := b.(structure)
		if !ok || len(av) != len(bv) {
			return nil, false
		}
		out := make(structure, len(av))
		for i := range av {
			m, ok := x.mergeVal(c, av[i], bv[i], depth+1)
			if !ok {
				return nil, false
			}
			out[i] = m
		}
		return out, true
	case array:
		bv, ok := b.(array)
		if !ok || len(av) != len(bv) {
			return nil, false
		}
		out := make(array, len(av))
		for i := range av {
			m, ok := x.mergeVal(c, av[i], bv[i], depth+1)
			if !ok {
				return nil, false
			}
			out[i] = m
		}
		return out, true
	case tuple:
		bv, ok := b.(tuple)
		if !ok || len(av) != len(bv) {
			return nil, false
		}
		out := make(tuple, len(av))
		for i := range av {
			m, ok := x.mergeVal(c, av[i], bv[i], depth+1)
			if !ok {
				return nil, false
			}
			out[i] = m
		}
		return out, true
	case iface:
		bv, ok := b.(iface)
		if !ok {
			return nil, false
		}
		if av.t == nil || bv.t == nil {
			if av.t == nil && bv.t == nil {
				return a, true
			}
			return nil, false
		}
		if !types.Identical(av.t, bv.t) {
			return nil, false
		}
		m, ok := x.mergeVal(c, av.v, bv.v, depth+1)
		if !ok {
			return nil, false
		}
		return iface{av.t, m}, true
	case []value:
		bv, ok := b.([]value)
		if !ok {
			return nil, false
		}
		if av == nil && bv == nil {
			return a, true
		}
		if len(av) == len(bv) && cap(av) == cap(bv) && (len(av) == 0 && cap(av) == 0 || cap(av) > 0 && &av[:1][0] == &bv[:1][0]) {
			return a, true
		}
		return nil, false
	case *omap:
		if bv, ok := b.(*omap); ok && av == bv {
			return a, true
		}
		return nil, false
	case *ssa.Function:
		if bv, ok := b.(*ssa.Function); ok && av == bv {
			return a, true
		}
		return nil, false
	case *closure:
		if bv, ok := b.(*closure); ok && av == bv {
			return a, true
		}
		return nil, false
	case native:
		if bv, ok := b.(native); ok && av.v == bv.v {
			return a, true
		}
		return nil, false
	case *blob:
		if bv, ok := b.(*blob); ok && av == bv {
			return a, true
		}
		return nil, false
	}
	return nil, false
}

// ---- fresh memory tracking (allocated during the current speculation) ----

func (x *exec) markFresh(p *value) {
	if x.spec == 0 || p == nil {
		return
	}
	x.freshCells[p] = true
	x.markFreshVal(*p)
}

func (x *exec) markFreshVal(v value) {
	if x.spec == 0 {
		return
	}
	switch v := v.(type) {
	case structure:
		for i := range v {
			x.freshCells[&v[i]] = true
			x.markFreshVal(v[i])
		}
	case array:
		for i := range v {
			x.freshCells[&v[i]] = true
			x.markFreshVal(v[i])
		}
	}
}

func (x *exec) markFreshSlice(s []value) {
	if x.spec == 0 {
		return
	}
	full := s[:cap(s)]
	for i := range full {
		x.freshCells[&full[i]] = true
		x.markFreshVal(full[i])
	}
}

// specStore is called before every store while speculating.
func (x *exec) specStore(addr *value) {
	if x.freshCells[addr] {
		return
	}
	st := x.specStack[len(x.specStack)-1]
	st.wlog = append(st.wlog, writeRec{addr, copyVal(*addr)})
}

func (x *exec) specMapWrite(m *omap) {
	if x.spec > 0 && !x.freshMaps[m] {
		panic(specAbort{"map mutation"})
	}
}

func (x *exec) specImpure(what string) {
	if x.spec > 0 {
		panic(specAbort{what})
	}
}

// ---- the merge itself ----

type armOut struct {
	returned bool
	result   value
	pred     *ssa.BasicBlock
	env      map[ssa.Value]value
	writes   map[*value]value // final value of every pre-existing cell written in the arm
	order    []*value
	old      map[*value]value
	defs     []*smt.Term
	phis     map[*ssa.Phi]value // phi values already joined by a nested merge that ended at the same join
	blocks   map[*ssa.BasicBlock]bool
}

const specMaxDepth = 48
const specArmBudget = 400000

// runArm executes from block `start` (entered from `from`) until `join` (exclusive) or a Return.
func (x *exec) runArm(fr *frame, from, start, join *ssa.BasicBlock, guard *smt.Term, env0 map[ssa.Value]value) (out armOut, ok bool) {
	savePC := len(x.pc)
	saveDec := len(x.decisions)
	saveFail, saveReach, saveWit := len(x.failures), len(x.reached), len(x.wits)
	saveStats := *x.stats
	saveEnv, saveBlock, savePrev, saveResult, saveCur := fr.env, fr.block, fr.prevBlock, fr.result, fr.cur
	saveMP := fr.mergedPhis
	saveTop := fr.i.top
	saveDepth := x.depth
	st := &specState{guard: guard, fr: fr, blocks: map[*ssa.BasicBlock]bool{}}
	x.specStack = append(x.specStack, st)
	x.spec++
	env := make(map[ssa.Value]value, len(env0)+16)
	for k, v := range env0 {
		env[k] = v
	}
	fr.env = env
	fr.prevBlock, fr.block = from, start
	x.pc = append(x.pc, guard)
	steps0 := x.steps

	finish := func(success bool) {
		// undo the arm's stores (newest first), remembering the final values
		if success {
			out.writes = map[*value]value{}
			out.old = map[*value]value{}
			for _, w := range st.wlog {
				if _, seen := out.old[w.addr]; !seen {
					out.old[w.addr] = w.old
					out.order = append(out.order, w.addr)
				}
			}
			for _, a := range out.order {
				out.writes[a] = copyVal(*a)
			}
		}
		for i := len(st.wlog) - 1; i >= 0; i-- {
			restoreCell(st.wlog[i].addr, st.wlog[i].old)
		}
		x.spec--
		x.specStack = x.specStack[:len(x.specStack)-1]
		if success {
			out.blocks = st.blocks
			// an enclosing arm of the same frame has executed these blocks too
			if n := len(x.specStack); n > 0 && x.specStack[n-1].fr == fr {
				for b := range st.blocks {
					x.specStack[n-1].blocks[b] = true
				}
			}
		}
		x.pc = x.pc[:savePC]
		fr.env, fr.block, fr.prevBlock, fr.result, fr.cur = saveEnv, saveBlock, savePrev, saveResult, saveCur
		fr.mergedPhis = saveMP
		fr.i.top = saveTop
		x.depth = saveDepth
		if !success {
			x.decisions = x.decisions[:saveDec]
			x.failures = x.failures[:saveFail]
			x.reached = x.reached[:saveReach]
			x.wits = x.wits[:saveWit]
			ar, ic := x.stats.AbandonReasons, x.stats.InconclusiveClauses
			*x.stats = saveStats
			x.stats.AbandonReasons, x.stats.InconclusiveClauses = ar, ic
		}
	}
	defer func() {
		if r := recover(); r != nil {
			finish(false)
			ok = false
			if ep, isEngine := r.(enginePanic); isEngine {
				panic(ep)
			}
			if sa, isAbort := r.(specAbort); isAbort {
				x.lastAbort = sa.why
			} else {
				x.lastAbort = fmt.Sprint(r)
				if len(x.lastAbort) > 80 {
					x.lastAbort = x.lastAbort[:80]
				}
			}
		}
	}()

	for {
		if fr.block == join && join != nil {
			out.pred = fr.prevBlock
			out.env = fr.env
			out.phis = fr.mergedPhis
			fr.mergedPhis = nil
			break
		}
		st.blocks[fr.block] = true
		nonPhis := executePhis(fr)
		ret := false
		for _, instr := range nonPhis {
			x.tick()
			if x.steps-steps0 > specArmBudget {
				panic(specAbort{"arm instruction budget"})
			}
			fr.cur = instr
			if visitInstr(fr, instr) == kReturn {
				ret = true
				break
			}
		}
		if ret {
			out.returned = true
			out.result = fr.result
			break
		}
	}
	out.defs = st.defs
	finish(true)
	return out, true
}

// restoreCell writes old back into *addr in place (structure/array cells keep their identity).
func restoreCell(addr *value, old value) {
	switch o := old.(type) {
	case structure:
		if cur, ok := (*addr).(structure); ok && len(cur) == len(o) {
			for i := range o {
				restoreCell(&cur[i], o[i])
			}
			return
		}
	case array:
		if cur, ok := (*addr).(array); ok && len(cur) == len(o) {
			for i := range o {
				restoreCell(&cur[i], o[i])
			}
			return
		}
	}
	*addr = old
}

// tryMerge attempts to join both arms of the branch at the end of fr.block.
// On success the frame is positioned at the join (or has returned).
func (x *exec) tryMerge(fr *frame, instr *ssa.If, c *smt.Term) (continuation, bool) {
	if x.noMerge || x.noMergeAt[instr] || len(x.specStack) >= specMaxDepth {
		return 0, false
	}
	if fr.specBorn < x.spec && false {
		return 0, false
	}
	info := postDominators(fr.fn)
	b := fr.block
	if !info.ok[b] {
		return 0, false
	}
	join := info.ipdom[b]
	env0 := fr.env
	tb := x.tb
	// everything the arms recorded (decisions, failed obligations, reach labels, witnesses,
	// statistics) is dropped again when the join itself fails after both arms succeeded
	saveDec, saveFail, saveReach, saveWit := len(x.decisions), len(x.failures), len(x.reached), len(x.wits)
	saveStats := *x.stats
	giveUp := func(why string) (continuation, bool) {
		x.noMergeAt[instr] = true
		if why != "" {
			x.lastAbort = why
		}
		x.decisions = x.decisions[:saveDec]
		x.failures = x.failures[:saveFail]
		x.reached = x.reached[:saveReach]
		x.wits = x.wits[:saveWit]
		ar, ic := x.stats.AbandonReasons, x.stats.InconclusiveClauses
		*x.stats = saveStats
		x.stats.AbandonReasons, x.stats.InconclusiveClauses = ar, ic
		return 0, false
	}
	a1, ok := x.runArm(fr, b, b.Succs[0], join, c, env0)
	if !ok {
		x.noMergeAt[instr] = true
		return 0, false
	}
	a2, ok := x.runArm(fr, b, b.Succs[1], join, tb.Not(c), env0)
	if !ok {
		return giveUp("")
	}
	if a1.returned != a2.returned {
		return giveUp("one arm returns, the other reaches the join")
	}
	// join the stores
	type mw struct {
		addr *value
		v    value
	}
	var merged []mw
	seen := map[*value]bool{}
	for _, arm := range []*armOut{&a1, &a2} {
		for _, addr := range arm.order {
			if seen[addr] {
				continue
			}
			seen[addr] = true
			v1, w1 := a1.writes[addr]
			v2, w2 := a2.writes[addr]
			if !w1 {
				v1 = a2.old[addr]
			}
			if !w2 {
				v2 = a1.old[addr]
			}
			m, ok := x.mergeVal(c, v1, v2, 0)
			if !ok {
				return giveUp("stores that cannot be joined")
			}
			merged = append(merged, mw{addr, m})
		}
	}
	var retVal value
	var phiVals map[*ssa.Phi]value
	if a1.returned {
		m, ok := x.mergeVal(c, a1.result, a2.result, 0)
		if !ok {
			return giveUp("results that cannot be joined")
		}
		retVal = m
	} else {
		phiVals = map[*ssa.Phi]value{}
		i1, i2 := -1, -1
		for k, p := range join.Preds {
			if p == a1.pred {
				i1 = k
			}
			if p == a2.pred {
				i2 = k
			}
		}
		if i1 < 0 || i2 < 0 {
			return giveUp("")
		}
		get := func(env map[ssa.Value]value, v ssa.Value) value {
			saved := fr.env
			fr.env = env
			defer func() { fr.env = saved }()
			return fr.get(v)
		}
		for _, ins := range join.Instrs {
			phi, isPhi := ins.(*ssa.Phi)
			if !isPhi {
				break
			}
			var v1, v2 value
			if a1.phis != nil {
				v1 = a1.phis[phi]
			} else {
				v1 = get(a1.env, phi.Edges[i1])
			}
			if a2.phis != nil {
				v2 = a2.phis[phi]
			} else {
				v2 = get(a2.env, phi.Edges[i2])
			}
			m, ok := x.mergeVal(c, v1, v2, 0)
			if !ok {
				return giveUp("phi values that cannot be joined")
			}
			phiVals[phi] = m
		}
	}
	// Registers that were already defined before the branch and were defined again inside an
	// arm (the arm ran further iterations of an enclosing loop): their blocks may dominate the
	// join, so code after the join can read them without a phi. They are joined like phis.
	type rw struct {
		v ssa.Value
		m value
	}
	var redefs []rw
	if !a1.returned {
		seenB := map[*ssa.BasicBlock]bool{}
		for _, arm := range []*armOut{&a1, &a2} {
			for blk := range arm.blocks {
				if seenB[blk] {
					continue
				}
				seenB[blk] = true
				for _, ins := range blk.Instrs {
					v, isVal := ins.(ssa.Value)
					if !isVal {
						continue
					}
					old, had := env0[v]
					if !had {
						continue
					}
					v1, in1 := a1.env[v]
					v2, in2 := a2.env[v]
					if !in1 {
						v1 = old
					}
					if !in2 {
						v2 = old
					}
					m, ok := x.mergeVal(c, v1, v2, 0)
					if !ok {
						return giveUp("registers redefined in an arm that cannot be joined")
					}
					redefs = append(redefs, rw{v, m})
				}
			}
		}
	}
	// commit
	for _, r := range redefs {
		fr.env[r.v] = r.m
	}
	for _, w := range merged {
		if len(x.specStack) > 0 {
			x.specStore(w.addr) // an enclosing speculation must see these stores
		} else if x.frozen != nil && x.frozen[w.addr] {
			x.frozenWrite()
		}
		restoreCell(w.addr, w.v)
	}
	for _, d := range a1.defs {
		x.addDef(tb.Implies(c, d))
	}
	for _, d := range a2.defs {
		x.addDef(tb.Implies(tb.Not(c), d))
	}
	x.merges++
	if a1.returned {
		fr.result = retVal
		fr.block = nil
		return kReturn, true
	}
	fr.mergedPhis = phiVals
	fr.prevBlock, fr.block = a1.pred, join
	return kJump, true
}

// addDef records a definitional constraint (one that only restricts fresh
// variables): it is kept when an arm is joined, guarded by the arm condition.
func (x *exec) addDef(t *smt.Term) {
	if t.IsConst() && t.B {
		return
	}
	x.pc = append(x.pc, t)
	if n := len(x.specStack); n > 0 {
		x.specStack[n-1].defs = append(x.specStack[n-1].defs, t)
	}
}
