package symx

// exec: one symbolic run of a harness under a forced decision prefix, and the
// bookkeeping shared by the runs of one exploration (obligations, witnesses).

import (
	"fmt"
	"go/types"
	"math/big"
	"sort"
	"strings"

	"golang.org/x/tools/go/ssa"
	"gosx/smt"
)

// NondetVal records one nondet intrinsic call of a run, in call order.
type NondetVal struct {
	Kind string    // int, bool, float, string, bytes, choice
	Term *smt.Term // the variable (nil for concrete-by-fork values)
	Fork int64     // value chosen by forking (choice, bytes length)
	Lo   int64     // for bytes: elements
	Vars []*smt.Term
}

// Outcome of one obligation instance on one path.
type Failure struct {
	Clause  string
	Panic   bool
	Known   string // key of the known-finding region active on the path ("" = unlisted)
	Model   *smt.Model
	Nondets []NondetVal
	Prefix  []Decision
	Pos     string
}

// Decision is one solver-decided choice on a path: a branch outcome (B = 0/1) or
// the concretisation of a symbolic integer (B = -1: Val is the chosen constant,
// Excl the constants already covered by sibling paths; Val == "" means "choose a
// value not in Excl").
type Decision struct {
	B    int      `json:"b"`
	Val  string   `json:"v,omitempty"`
	Excl []string `json:"x,omitempty"`
}

type abandonPanic struct{ why string }
type pathEnd struct{ why string }

// exec is the per-run state.
type exec struct {
	tb     *smt.Table
	solver *smt.Solver
	sh     *Shared

	prefix    []Decision // forced decisions
	decisions []Decision // decisions taken so far (superset of prefix)
	siblings  [][]Decision

	pc      []*smt.Term
	nfresh  int
	nondets []NondetVal

	floatMag     uint
	floatRel     bool
	roundMemo    map[*smt.Term]*smt.Term
	varsMemo     map[*smt.Term]map[*smt.Term]struct{}
	noSlice      bool
	lenVars      map[*smt.Term]bool
	letterOK     map[*smt.Term]bool
	braceOK      map[*smt.Term]bool
	floatErrVars int

	known    []knownRegion
	steps    int
	depth    int
	maxSteps int
	maxDepth int

	reached  []string
	failures []Failure
	stats    *Stats
	bounds   map[string]int64
	frozen   map[*value]bool
	gtrace   *globalTrace
	ended    string // why the path ended early ("" = normal return)
	curPos   func() string
	notes    []string
	calls    map[string]bool

	tier        string
	needWit     func(string) bool
	knownKeys   map[string]bool
	stubs       map[string]bool
	wits        []Witness
	assumeNotes []string
	inHarness   bool
	frozenWhat  string
	frozenMaps  []*omap
	nblob       int
	env         map[string]interface{} // per-run stub state (zip recorder, decoders, ...)

	// speculative branch merging (merge.go)
	spec       int
	specStack  []*specState
	freshCells map[*value]bool
	freshMaps  map[*omap]bool
	noMerge    bool
	noMergeAt  map[*ssa.If]bool
	lastAbort  string
	merges     int
	mergeFail  map[string]int
}

type knownRegion struct {
	key      string
	prefixes []string // clause prefixes it applies to; empty = all
}

// Stats are accumulated per worker and merged.
type Stats struct {
	Paths, Decisions, Obligations, Discharged, Violations, KnownHits int
	Inconclusive, Abandoned, UnwindFailures, InfeasiblePaths         int
	AbandonReasons                                                   map[string]int
	InconclusiveClauses                                              map[string]int
}

// Shared across runs of one harness exploration (single worker or merged later).
type Shared struct {
	Tier string
}

func (x *exec) fresh(prefix string, s smt.Sort) *smt.Term {
	x.nfresh++
	return x.tb.Var(fmt.Sprintf("%s_%d", prefix, x.nfresh), s)
}

func (x *exec) assume(t *smt.Term) {
	if t.IsConst() {
		if !t.B {
			panic(pathEnd{"assumption false"})
		}
		return
	}
	x.addDef(t)
}

func (x *exec) abandon(why string) {
	panic(abandonPanic{why})
}

// checking reports whether we are past the forced prefix (obligations before
// it were already decided by the run that created this prefix).
func (x *exec) checking() bool { return len(x.decisions) >= len(x.prefix) }

// termVars: the free variables of t (memoised per path).
func (x *exec) termVars(t *smt.Term) map[*smt.Term]struct{} {
	if x.varsMemo == nil {
		x.varsMemo = map[*smt.Term]map[*smt.Term]struct{}{}
	}
	if v, ok := x.varsMemo[t]; ok {
		return v
	}
	var out map[*smt.Term]struct{}
	if t.Op == "var" {
		out = map[*smt.Term]struct{}{t: {}}
	} else {
		for _, a := range t.Args {
			av := x.termVars(a)
			if len(av) == 0 {
				continue
			}
			if out == nil {
				if len(t.Args) == 1 {
					out = av
					break
				}
				out = make(map[*smt.Term]struct{}, len(av))
			}
			for k := range av {
				out[k] = struct{}{}
			}
		}
	}
	x.varsMemo[t] = out
	return out
}

// sliceFor splits the path condition into the conjuncts that share variables (transitively)
// with q and the rest. The rest is satisfiable whenever the path is feasible and is
// variable-disjoint from the slice, so pc AND q is satisfiable iff slice AND q is.
func (x *exec) sliceFor(q *smt.Term) (slice, rest []*smt.Term) {
	n := len(x.pc)
	byVar := map[*smt.Term][]int{}
	for i, c := range x.pc {
		for v := range x.termVars(c) {
			byVar[v] = append(byVar[v], i)
		}
	}
	sel := make([]bool, n)
	seenVar := map[*smt.Term]bool{}
	var work []*smt.Term
	for v := range x.termVars(q) {
		seenVar[v] = true
		work = append(work, v)
	}
	for len(work) > 0 {
		v := work[len(work)-1]
		work = work[:len(work)-1]
		for _, i := range byVar[v] {
			if sel[i] {
				continue
			}
			sel[i] = true
			for w := range x.termVars(x.pc[i]) {
				if !seenVar[w] {
					seenVar[w] = true
					work = append(work, w)
				}
			}
		}
	}
	for i, c := range x.pc {
		if sel[i] {
			slice = append(slice, c)
		} else if len(x.termVars(c)) > 0 {
			rest = append(rest, c)
		} else if c.IsConst() && !c.B {
			slice = append(slice, c)
		}
	}
	return
}

func (x *exec) query(extra *smt.Term, model bool) (smt.Result, *smt.Model) {
	var terms, rest []*smt.Term
	if x.noSlice {
		terms = append(append([]*smt.Term(nil), x.pc...), extra)
	} else {
		terms, rest = x.sliceFor(extra)
		terms = append(terms, extra)
	}
	r, m, err := x.solver.Check(terms, model)
	if err != nil {
		x.notes = append(x.notes, "solver error: "+err.Error())
		return smt.Unknown, nil
	}
	if model && r == smt.Sat && len(rest) > 0 {
		// values for the variables outside the slice
		r2, m2, err := x.solver.Check(rest, true)
		if err != nil || r2 != smt.Sat || m2 == nil {
			if r2 == smt.Unsat {
				return smt.Unsat, nil
			}
			return smt.Unknown, nil
		}
		// merge into a fresh model (solver results are cached and shared between paths)
		mm := &smt.Model{Ints: map[string]*big.Int{}, Reals: map[string]*big.Rat{}, Strs: map[string]string{}, Bools: map[string]bool{}}
		for _, src := range []*smt.Model{m2, m} {
			if src == nil {
				continue
			}
			for k, v := range src.Ints {
				mm.Ints[k] = v
			}
			for k, v := range src.Reals {
				mm.Reals[k] = v
			}
			for k, v := range src.Strs {
				mm.Strs[k] = v
			}
			for k, v := range src.Bools {
				mm.Bools[k] = v
			}
		}
		m = mm
	}
	return r, m
}

// decide resolves a symbolic condition to a concrete branch, forking if both
// sides are feasible. Returns the truth value taken on this run.
func (x *exec) decide(c *smt.Term) bool {
	b, _, _ := x.decideBranch(c, nil, nil)
	return b
}

// decideBranch is decide with the option of merging both arms of an If (fr, instr non-nil).
func (x *exec) decideBranch(c *smt.Term, fr *frame, instr *ssa.If) (taken bool, merged bool, k continuation) {
	if c.IsConst() {
		return c.B, false, 0
	}
	n := len(x.decisions)
	if n < len(x.prefix) {
		d := x.prefix[n]
		if d.B == 2 {
			if fr == nil {
				panic(fmt.Sprintf("engine: nondeterministic re-execution (merge decision at a non-branch, %d)", n))
			}
			x.decisions = append(x.decisions, d)
			k, ok := x.tryMerge(fr, instr, c)
			if !ok {
				panic(fmt.Sprintf("engine: nondeterministic re-execution (merge at %d did not repeat: %s)", n, x.lastAbort))
			}
			return false, true, k
		}
		if d.B < 0 {
			panic(fmt.Sprintf("engine: nondeterministic re-execution (branch decision expected, got value decision at %d)", n))
		}
		x.decisions = append(x.decisions, d)
		if d.B == 1 {
			x.pc = append(x.pc, c)
		} else {
			x.pc = append(x.pc, x.tb.Not(c))
		}
		return d.B == 1, false, 0
	}
	if len(x.decisions) > x.maxDecisions() {
		x.stats.UnwindFailures++
		panic(pathEnd{"unwind: decision limit reached (bound too small)"})
	}
	x.stats.Decisions++
	rt, _ := x.query(c, false)
	rf, _ := x.query(x.tb.Not(c), false)
	tOK := rt != smt.Unsat
	fOK := rf != smt.Unsat
	if rt == smt.Unknown || rf == smt.Unknown {
		x.stats.Inconclusive++
		x.stats.InconclusiveClauses["branch feasibility"]++
	}
	switch {
	case tOK && fOK:
		if fr != nil && rt == smt.Sat && rf == smt.Sat {
			x.decisions = append(x.decisions, Decision{B: 2})
			if k, ok := x.tryMerge(fr, instr, c); ok {
				return false, true, k
			}
			x.decisions = x.decisions[:n]
		} else {
			x.lastAbort = "not a branch"
		}
		if x.spec > 0 {
			panic(specAbort{"fork inside a speculative arm"})
		}
		sib := append(append([]Decision(nil), x.decisions...), Decision{B: 0})
		x.siblings = append(x.siblings, sib)
		x.decisions = append(x.decisions, Decision{B: 1})
		x.pc = append(x.pc, c)
		if x.curPos != nil {
			x.mergeFail["fork at "+x.curPos()+" ["+x.lastAbort+"]"]++
		}
		return true, false, 0
	case tOK:
		x.decisions = append(x.decisions, Decision{B: 1})
		x.pc = append(x.pc, c)
		return true, false, 0
	case fOK:
		x.decisions = append(x.decisions, Decision{B: 0})
		x.pc = append(x.pc, x.tb.Not(c))
		return false, false, 0
	}
	x.stats.InfeasiblePaths++
	panic(pathEnd{"path condition infeasible"})
}

func (x *exec) maxDecisions() int { return 6000 }

// obligation checks that c holds on every input reaching this point, records a
// failure otherwise, then continues under c.
func (x *exec) obligation(c *smt.Term, clause string, isPanic bool) {
	if c.IsConst() && c.B {
		if x.checking() {
			x.stats.Obligations++
			x.stats.Discharged++
		}
		return
	}
	if x.checking() {
		x.stats.Obligations++
		r, m := x.query(x.tb.Not(c), true)
		switch r {
		case smt.Unsat:
			x.stats.Discharged++
		case smt.Sat:
			if x.recordFailure(clause, isPanic, m) != "" && !isPanic {
				// a listed known finding: keep checking the rest of the path without assuming the clause
				return
			}
		default:
			x.stats.Inconclusive++
			x.stats.InconclusiveClauses[clause]++
		}
	}
	if c.IsConst() && !c.B {
		panic(pathEnd{"obligation failed on every input of this path: " + clause})
	}
	x.pc = append(x.pc, c)
	// continuing requires pc ∧ c to be feasible
	if x.checking() {
		if r, _ := x.query(x.tb.True, false); r == smt.Unsat {
			panic(pathEnd{"no input satisfies the obligation: " + clause})
		}
	}
}

func (x *exec) recordFailure(clause string, isPanic bool, m *smt.Model) string {
	key := ""
	for _, k := range x.known {
		if len(k.prefixes) == 0 {
			key = k.key
			break
		}
		for _, p := range k.prefixes {
			if strings.HasPrefix(clause, p) {
				key = k.key
			}
		}
		if key != "" {
			break
		}
	}
	pos := ""
	if x.curPos != nil {
		pos = x.curPos()
	}
	f := Failure{Clause: clause, Panic: isPanic, Known: key, Model: m,
		Nondets: append([]NondetVal(nil), x.nondets...), Prefix: append([]Decision(nil), x.decisions...), Pos: pos}
	x.failures = append(x.failures, f)
	if key != "" {
		x.stats.KnownHits++
	} else {
		x.stats.Violations++
	}
	return key
}

// concretePanic is a Go runtime panic (or explicit panic) on a concrete path:
// the failing inputs are any model of the path condition.
func (x *exec) concretePanic(msg string) {
	x.stats.Obligations++
	_, m := x.query(x.tb.True, true)
	x.recordFailure("panic: "+msg, true, m)
}

// concretize forks over the feasible values of a symbolic integer or bool.
func (x *exec) concretize(v value, what string) value {
	s, ok := v.(sym)
	if !ok {
		return v
	}
	tb := x.tb
	if s.t.Sort == smt.Bool {
		return x.decide(s.t)
	}
	if s.t.Sort != smt.Int {
		x.abandon("symbolic " + s.t.Sort.String() + " reached a point that needs a concrete value: " + what)
	}
	mkc := func(str string) *smt.Term {
		n, ok := new(big.Int).SetString(str, 10)
		if !ok {
			panic("engine: bad constant in decision: " + str)
		}
		return tb.BigC(n)
	}
	n := len(x.decisions)
	var excl []string
	if n < len(x.prefix) {
		d := x.prefix[n]
		if d.B >= 0 {
			panic(fmt.Sprintf("engine: nondeterministic re-execution (value decision expected at %d)", n))
		}
		if d.Val != "" {
			c := mkc(d.Val)
			x.decisions = append(x.decisions, d)
			x.pc = append(x.pc, tb.Eq(s.t, c))
			return concreteOf(s.k, c)
		}
		excl = d.Excl
	}
	if len(excl) >= 64 {
		x.stats.UnwindFailures++
		panic(pathEnd{"unwind: more than 64 feasible values for " + what})
	}
	for _, e := range excl {
		x.pc = append(x.pc, tb.Not(tb.Eq(s.t, mkc(e))))
	}
	x.stats.Decisions++
	r, m := x.query(tb.True, true)
	if r != smt.Sat {
		if r == smt.Unknown {
			x.stats.Inconclusive++
			x.stats.InconclusiveClauses["concretize "+what]++
		}
		x.stats.InfeasiblePaths++
		panic(pathEnd{"no further value for " + what})
	}
	cand := x.evalModel(s.t, m)
	if cand == nil {
		x.abandon("cannot evaluate model for " + what)
	}
	cs := cand.I.String()
	// other values feasible?
	if r2, _ := x.query(tb.Not(tb.Eq(s.t, cand)), false); r2 != smt.Unsat {
		if x.spec > 0 {
			panic(specAbort{"value fork inside a speculative arm"})
		}
		sib := append(append([]Decision(nil), x.decisions...), Decision{B: -1, Excl: append(append([]string(nil), excl...), cs)})
		x.siblings = append(x.siblings, sib)
	}
	x.decisions = append(x.decisions, Decision{B: -1, Val: cs, Excl: excl})
	x.pc = append(x.pc, tb.Eq(s.t, cand))
	return concreteOf(s.k, cand)
}

// evalModel evaluates term t under model m (variables absent from the model
// default to 0/""/false). Returns nil when an operator is not supported.
func (x *exec) evalModel(t *smt.Term, m *smt.Model) *smt.Term {
	tb := x.tb
	memo := map[int]*smt.Term{}
	var ev func(t *smt.Term) *smt.Term
	ev = func(t *smt.Term) *smt.Term {
		if r, ok := memo[t.ID]; ok {
			return r
		}
		var r *smt.Term
		switch t.Op {
		case "const":
			r = t
		case "var":
			switch t.Sort {
			case smt.Bool:
				r = tb.BoolC(m.Bools[t.Name])
			case smt.Int:
				if v, ok := m.Ints[t.Name]; ok {
					r = tb.BigC(v)
				} else {
					r = tb.IntC(0)
				}
			case smt.Real:
				if v, ok := m.Reals[t.Name]; ok {
					r = tb.RatC(v)
				} else {
					r = tb.RatC(new(big.Rat))
				}
			default:
				r = tb.StrC(m.Strs[t.Name])
			}
		default:
			args := make([]*smt.Term, len(t.Args))
			for i, a := range t.Args {
				args[i] = ev(a)
				if args[i] == nil {
					return nil
				}
			}
			r = x.applyOp(t, args)
		}
		memo[t.ID] = r
		return r
	}
	r := ev(t)
	if r != nil && !r.IsConst() {
		return nil
	}
	return r
}

func (x *exec) applyOp(t *smt.Term, a []*smt.Term) *smt.Term {
	tb := x.tb
	switch t.Op {
	case "not":
		return tb.Not(a[0])
	case "and":
		return tb.And(a...)
	case "or":
		return tb.Or(a...)
	case "ite":
		return tb.Ite(a[0], a[1], a[2])
	case "=":
		return tb.Eq(a[0], a[1])
	case "+":
		return tb.Add(a[0], a[1])
	case "-":
		return tb.Sub(a[0], a[1])
	case "*":
		return tb.Mul(a[0], a[1])
	case "/":
		if a[1].IsConst() && a[1].R.Sign() == 0 {
			return nil
		}
		return tb.RDiv(a[0], a[1])
	case "div":
		return tb.IDiv(a[0], a[1])
	case "mod":
		return tb.IMod(a[0], a[1])
	case "<":
		return tb.Lt(a[0], a[1])
	case "<=":
		return tb.Le(a[0], a[1])
	case "str.<":
		return tb.Lt(a[0], a[1])
	case "str.<=":
		return tb.Le(a[0], a[1])
	case "to_real":
		return tb.ToReal(a[0])
	case "to_int":
		return tb.ToInt(a[0])
	case "str.++":
		return tb.Concat(a...)
	case "str.len":
		return tb.StrLen(a[0])
	case "str.from_int":
		return tb.StrFromInt(a[0])
	case "str.to_int":
		return tb.StrToInt(a[0])
	case "str.prefixof":
		return tb.PrefixOf(a[0], a[1])
	case "str.suffixof":
		return tb.SuffixOf(a[0], a[1])
	case "str.contains":
		return tb.Contains(a[0], a[1])
	case "str.indexof":
		return tb.IndexOf(a[0], a[1], a[2])
	case "str.substr":
		return tb.Substr(a[0], a[1], a[2])
	case "str.to_code":
		return tb.ToCode(a[0])
	case "str.from_code":
		return tb.FromCode(a[0])
	case "str.replace":
		return tb.Replace(a[0], a[1], a[2])
	case "str.replace_all":
		return tb.ReplaceAll(a[0], a[1], a[2])
	}
	return nil
}

// step accounting (loop/recursion bounds)
func (x *exec) tick() {
	x.steps++
	if x.steps > x.maxSteps {
		x.stats.UnwindFailures++
		panic(pathEnd{"unwind: instruction budget exhausted (possible non-termination)"})
	}
}

func sortedKeys(m map[string]int) []string {
	var ks []string
	for k := range m {
		ks = append(ks, k)
	}
	sort.Strings(ks)
	return ks
}

func kindName(k types.BasicKind) string { return types.Typ[k].Name() }
