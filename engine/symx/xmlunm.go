package symx

// encoding/xml.Unmarshal over a token list (the marshal model of a blob, or the real
// Decoder's tokens of concrete bytes), following encoding/xml's field matching:
// a field matches an element/attribute when its tag name equals the *local* name the
// Decoder reports (so tags written with a prefix, "w:style", never match - exactly the
// real behaviour), unknown elements and attributes are skipped.

import (
	"go/types"
	"strconv"
)

type unm struct {
	fr  *frame
	d   *decObj
	err string
}

func (u *unm) x() *exec { return u.fr.i.x }

// nextTok returns the next token value (iface) or nil at end/error.
func (u *unm) nextTok() (iface, bool) {
	r := u.d.next(u.fr).(tuple)
	if e, _ := r[1].(iface); e.t != nil {
		if u.d.pos >= len(u.d.toks) && u.d.tail == nil && len(u.d.scopes) == 0 {
			return iface{}, false // EOF
		}
		if msg, ok := u.fr.errorString(e); ok && u.err == "" {
			u.err = msg
		}
		return iface{}, false
	}
	return r[0].(iface), true
}

func tokKind(t iface) string {
	if t.t == nil {
		return ""
	}
	return shortTypeName(t.t)
}

func nameLocal(n value) string { s := n.(structure); l, _ := s[1].(string); return l }

// skip consumes tokens up to the end element matching an already consumed start element.
func (u *unm) skip() {
	depth := 1
	for depth > 0 {
		t, ok := u.nextTok()
		if !ok {
			return
		}
		switch tokKind(t) {
		case "StartElement":
			depth++
		case "EndElement":
			depth--
		}
	}
}

func (u *unm) setScalar(dst *value, t types.Type, txt value) {
	x := u.x()
	b, ok := t.Underlying().(*types.Basic)
	if !ok {
		return
	}
	x.onStore(dst)
	switch {
	case b.Info()&types.IsString != 0:
		*dst = txt
	case b.Info()&types.IsBoolean != 0:
		s, isC := txt.(string)
		if !isC {
			x.abandon("xml.Unmarshal of a symbolic text into a bool field")
		}
		v, err := strconv.ParseBool(s)
		if err != nil && u.err == "" {
			u.err = err.Error()
		}
		*dst = v
	case b.Info()&types.IsInteger != 0:
		s, isC := txt.(string)
		if !isC {
			x.abandon("xml.Unmarshal of a symbolic text into an integer field")
		}
		n, err := strconv.ParseInt(s, 10, 64)
		if err != nil && u.err == "" {
			u.err = err.Error()
		}
		*dst = concreteOf(b.Kind(), x.tb.IntC(n))
	default:
		x.abandon("xml.Unmarshal into a field of type " + t.String())
	}
}

// element unmarshals the element whose start token was just consumed into *dst of type t.
func (u *unm) element(dst *value, t types.Type, start structure) {
	x := u.x()
	switch ut := t.Underlying().(type) {
	case *types.Pointer:
		cell := new(value)
		*cell = zero(ut.Elem())
		x.markFresh(cell)
		u.element(cell, ut.Elem(), start)
		x.onStore(dst)
		*dst = cell
		return
	case *types.Slice:
		if b, ok := ut.Elem().Underlying().(*types.Basic); ok && b.Kind() == types.Byte {
			x.abandon("xml.Unmarshal into []byte")
		}
		var ev value = zero(ut.Elem())
		u.element(&ev, ut.Elem(), start)
		old, _ := (*dst).([]value)
		nw := make([]value, len(old)+1)
		copy(nw, old)
		nw[len(old)] = ev
		x.markFreshSlice(nw)
		x.onStore(dst)
		*dst = nw
		return
	case *types.Struct:
		sv := (*dst).(structure)
		// attributes
		attrs, _ := start[1].([]value)
		for i := 0; i < ut.NumFields(); i++ {
			f := ut.Field(i)
			if f.Name() == "XMLName" {
				if _, isName := sv[i].(structure); isName {
					x.onStore(&sv[i])
					sv[i] = copyVal(start[0])
				}
				continue
			}
			ft := parseXMLTag(ut, i)
			if ft.skip || !ft.attr {
				continue
			}
			for _, a := range attrs {
				as := a.(structure)
				if nameLocal(as[0]) == ft.name {
					u.setScalar(&sv[i], f.Type(), as[1])
				}
			}
		}
		// children
		var text value = ""
		for {
			tk, ok := u.nextTok()
			if !ok {
				if u.err == "" {
					u.err = "unexpected EOF"
				}
				return
			}
			switch tokKind(tk) {
			case "EndElement":
				for i := 0; i < ut.NumFields(); i++ {
					ft := parseXMLTag(ut, i)
					if ft.chardata && !ft.skip {
						u.setScalar(&sv[i], ut.Field(i).Type(), text)
					}
				}
				return
			case "CharData":
				switch b := tk.v.(type) {
				case []value:
					if s, ok := concreteBytes(b); ok {
						text = x.concat(text, s)
					}
				case symBytes:
					text = x.concat(text, x.mkSym(types.String, b.t))
				}
			case "StartElement":
				cs := tk.v.(structure)
				local := nameLocal(cs[0])
				matched := false
				for i := 0; i < ut.NumFields(); i++ {
					f := ut.Field(i)
					if f.Name() == "XMLName" || !f.Exported() {
						continue
					}
					ft := parseXMLTag(ut, i)
					if ft.skip || ft.attr || ft.chardata || ft.innerxml || ft.comment || ft.any {
						continue
					}
					if ft.name == local {
						u.element(&sv[i], f.Type(), cs)
						matched = true
						break
					}
				}
				if !matched {
					u.skip()
				}
			}
		}
	case *types.Basic:
		// <name>text</name>
		var text value = ""
		for {
			tk, ok := u.nextTok()
			if !ok {
				return
			}
			switch tokKind(tk) {
			case "EndElement":
				u.setScalar(dst, t, text)
				return
			case "CharData":
				switch b := tk.v.(type) {
				case []value:
					if s, ok := concreteBytes(b); ok {
						text = x.concat(text, s)
					}
				case symBytes:
					text = x.concat(text, x.mkSym(types.String, b.t))
				}
			case "StartElement":
				u.skip()
			}
		}
	}
	x.abandon("xml.Unmarshal into a value of type " + t.String())
}

func init() {
	externals["encoding/xml.Unmarshal"] = func(fr *frame, args []value) value {
		x := fr.i.x
		itf, _ := args[1].(iface)
		pt, ok := itf.t.Underlying().(*types.Pointer)
		p, _ := itf.v.(*value)
		if !ok || p == nil {
			return fr.i.mkError("xml: non-pointer passed to Unmarshal")
		}
		var d *decObj
		switch src := args[0].(type) {
		case *blob:
			if src.zip != nil {
				return fr.i.mkError("XML syntax error: illegal character code")
			}
			d = x.newDecoderOver(fr, src)
		default:
			d = x.newDecoderOver(fr, src)
		}
		u := &unm{fr: fr, d: d}
		// find the root start element
		for {
			tk, ok := u.nextTok()
			if !ok {
				if u.err != "" {
					return fr.i.mkError(u.err)
				}
				return fr.i.foreignGlobalValue("io", "EOF")
			}
			if tokKind(tk) != "StartElement" {
				continue
			}
			start := tk.v.(structure)
			// expected element name from the XMLName tag
			if st, ok := pt.Elem().Underlying().(*types.Struct); ok {
				for i := 0; i < st.NumFields(); i++ {
					if st.Field(i).Name() == "XMLName" {
						ft := parseXMLTag(st, i)
						if ft.name != "" && ft.name != "XMLName" && ft.name != nameLocal(start[0]) {
							return fr.i.mkError("expected element type <" + ft.name + "> but have <" + nameLocal(start[0]) + ">")
						}
					}
				}
			}
			u.element(p, pt.Elem(), start)
			break
		}
		if u.err != "" {
			return fr.i.mkError(u.err)
		}
		return iface{}
	}
}
