// Copyright 2013 The Go Authors. All rights reserved.
// Use of this source code is governed by a BSD-style
// license that can be found in the LICENSE file.

// Package ssa/interp defines an interpreter for the SSA
// representation of Go programs.
//
// This interpreter is provided as an adjunct for testing the SSA
// construction algorithm.  Its purpose is to provide a minimal
// metacircular implementation of the dynamic semantics of each SSA
// instruction.  It is not, and will never be, a production-quality Go
// interpreter.
//
// The following is a partial list of Go features that are currently
// unsupported or incomplete in the interpreter.
//
// * Unsafe operations, including all uses of unsafe.Pointer, are
// impossible to support given the "boxed" value representation we
// have chosen.
//
// * The reflect package is only partially implemented.
//
// * The "testing" package is no longer supported because it
// depends on low-level details that change too often.
//
// * "sync/atomic" operations are not atomic due to the "boxed" value
// representation: it is not possible to read, modify and write an
// interface value atomically. As a consequence, Mutexes are currently
// broken.
//
// * recover is only partially implemented.  Also, the interpreter
// makes no attempt to distinguish target panics from interpreter
// crashes.
//
// * the sizes of the int, uint and uintptr types in the target
// program are assumed to be the same as those of the interpreter
// itself.
//
// * all values occupy space, even those of types defined by the spec
// to have zero size, e.g. struct{}.  This can cause asymptotic
// performance degradation.
//
// * os.Exit is implemented using panic, causing deferred functions to
// run.
package symx // import "golang.org/x/tools/go/ssa/interp"

import (
	"fmt"
	"go/token"
	"go/types"
	"log"
	"os"
	"runtime"
	"runtime/debug"
	"slices"
	_ "unsafe"

	"golang.org/x/tools/go/ssa"
)

type continuation int

const (
	kNext continuation = iota
	kReturn
	kJump
)

// Mode is a bitmask of options affecting the interpreter.
type Mode uint

const (
	DisableRecover Mode = 1 << iota // Disable recover() in target programs; show interpreter crash instead.
	EnableTracing                   // Print a trace of all instructions as they are interpreted.
)

type methodSet map[string]*ssa.Function

// State shared between all interpreted goroutines.
type interpreter struct {
	osArgs             []value                // the value of os.Args
	prog               *ssa.Program           // the SSA program
	globals            map[*ssa.Global]*value // addresses of global variables (immutable)
	mode               Mode                   // interpreter options
	reflectPackage     *ssa.Package           // the fake reflect package
	errorMethods       methodSet              // the method set of reflect.error, which implements the error interface.
	rtypeMethods       methodSet              // the method set of rtype, which implements the reflect.Type interface.
	runtimeErrorString types.Type             // the runtime.errorString type
	sizes              types.Sizes            // the effective type-sizing function
	goroutines         int32                  // atomically updated
	x                  *exec                  // symbolic-execution state of this run
	cfg                *Config
	errStringPtr       types.Type // *errors.errorString
	top                *frame
	foreignOK          map[*ssa.Global]bool
}

type deferred struct {
	fn    value
	args  []value
	instr *ssa.Defer
	tail  *deferred
}

type frame struct {
	i                *interpreter
	caller           *frame
	fn               *ssa.Function
	block, prevBlock *ssa.BasicBlock
	env              map[ssa.Value]value // dynamic values of SSA variables
	locals           []value
	defers           *deferred
	result           value
	panicking        bool
	panic            interface{}
	phitemps         []value // temporaries for parallel phi assignment
	cur              ssa.Instruction
	specBorn         int                // speculation depth at which the frame was created
	mergedPhis       map[*ssa.Phi]value // phi values joined by tryMerge for the next block entry
}

func (fr *frame) get(key ssa.Value) value {
	switch key := key.(type) {
	case nil:
		// Hack; simplifies handling of optional attributes
		// such as ssa.Slice.{Low,High}.
		return nil
	case *ssa.Function, *ssa.Builtin:
		return key
	case *ssa.Const:
		return constValue(key)
	case *ssa.Global:
		if r, ok := fr.i.globals[key]; ok {
			if !fr.i.cfg.pkgInterpreted(key.Pkg.Pkg.Path()) && !fr.i.foreignOK[key] {
				fr.i.x.abandon("access to global of a non-interpreted package: " + key.String())
			}
			return r
		}
	}
	if r, ok := fr.env[key]; ok {
		return r
	}
	if os.Getenv("VERIF_DEBUG") != "" {
		debug.PrintStack()
	}
	panic(enginePanic{fmt.Sprintf("get: no value for %T: %v in %s", key, key.Name(), fr.fn)})
}

// runDefer runs a deferred call d.
// It always returns normally, but may set or clear fr.panic.
func (fr *frame) runDefer(d *deferred) {
	var ok bool
	defer func() {
		if !ok {
			// Deferred call created a new state of panic.
			r := recover()
			switch r.(type) {
			case pathEnd, abandonPanic, enginePanic, specAbort:
				panic(r)
			}
			fr.panicking = true
			fr.panic = r
		}
	}()
	call(fr.i, fr, d.instr.Pos(), d.fn, d.args)
	ok = true
}

// runDefers executes fr's deferred function calls in LIFO order.
//
// On entry, fr.panicking indicates a state of panic; if
// true, fr.panic contains the panic value.
//
// On completion, if a deferred call started a panic, or if no
// deferred call recovered from a previous state of panic, then
// runDefers itself panics after the last deferred call has run.
//
// If there was no initial state of panic, or it was recovered from,
// runDefers returns normally.
func (fr *frame) runDefers() {
	for d := fr.defers; d != nil; d = d.tail {
		fr.runDefer(d)
	}
	fr.defers = nil
	if fr.panicking {
		panic(fr.panic) // new panic, or still panicking
	}
}

// lookupMethod returns the method set for type typ, which may be one
// of the interpreter's fake types.
func lookupMethod(i *interpreter, typ types.Type, meth *types.Func) *ssa.Function {
	switch typ {
	}
	return i.prog.LookupMethod(typ, meth.Pkg(), meth.Name())
}

// visitInstr interprets a single ssa.Instruction within the activation
// record frame.  It returns a continuation value indicating where to
// read the next instruction from.
func visitInstr(fr *frame, instr ssa.Instruction) continuation {
	switch instr := instr.(type) {
	case *ssa.DebugRef:
		// no-op

	case *ssa.UnOp:
		fr.env[instr] = unop(fr, instr, fr.get(instr.X))

	case *ssa.BinOp:
		fr.env[instr] = binop(fr.i.x, instr.Op, instr.X.Type(), fr.get(instr.X), fr.get(instr.Y))

	case *ssa.Call:
		fn, args := prepareCall(fr, &instr.Call)
		fr.env[instr] = call(fr.i, fr, instr.Pos(), fn, args)

	case *ssa.ChangeInterface:
		fr.env[instr] = fr.get(instr.X)

	case *ssa.ChangeType:
		fr.env[instr] = fr.get(instr.X) // (can't fail)

	case *ssa.Convert:
		fr.env[instr] = conv(fr.i.x, instr.Type(), instr.X.Type(), fr.get(instr.X))

	case *ssa.SliceToArrayPointer:
		fr.env[instr] = sliceToArrayPointer(instr.Type(), instr.X.Type(), fr.get(instr.X))

	case *ssa.MakeInterface:
		fr.env[instr] = iface{t: instr.X.Type(), v: fr.get(instr.X)}

	case *ssa.Extract:
		fr.env[instr] = fr.get(instr.Tuple).(tuple)[instr.Index]

	case *ssa.Slice:
		fr.env[instr] = slice(fr.i.x, fr.get(instr.X), fr.get(instr.Low), fr.get(instr.High), fr.get(instr.Max))

	case *ssa.Return:
		switch len(instr.Results) {
		case 0:
		case 1:
			fr.result = fr.get(instr.Results[0])
		default:
			var res []value
			for _, r := range instr.Results {
				res = append(res, fr.get(r))
			}
			fr.result = tuple(res)
		}
		fr.block = nil
		return kReturn

	case *ssa.RunDefers:
		if fr.defers != nil && fr.i.x.spec > fr.specBorn {
			panic(specAbort{"deferred calls run in a speculative arm"})
		}
		fr.runDefers()

	case *ssa.Panic:
		panic(targetPanic{fr.get(instr.X)})

	case *ssa.Send:
		fr.i.x.abandon("channel send (channels are not modelled)")

	case *ssa.Store:
		addr := fr.get(instr.Addr).(*value)
		fr.i.x.onStore(addr)
		store(mustDeref(instr.Addr.Type()), addr, fr.get(instr.Val))

	case *ssa.If:
		succ := 1
		var cond bool
		switch c := fr.get(instr.Cond).(type) {
		case bool:
			cond = c
		case sym:
			var merged bool
			var k continuation
			cond, merged, k = fr.i.x.decideBranch(c.t, fr, instr)
			if merged {
				return k
			}
		}
		if cond {
			succ = 0
		}
		fr.prevBlock, fr.block = fr.block, fr.block.Succs[succ]
		return kJump

	case *ssa.Jump:
		fr.prevBlock, fr.block = fr.block, fr.block.Succs[0]
		return kJump

	case *ssa.Defer:
		if fr.i.x.spec > fr.specBorn {
			panic(specAbort{"defer in a speculative arm"})
		}
		fn, args := prepareCall(fr, &instr.Call)
		defers := &fr.defers
		if into := fr.get(instr.DeferStack); into != nil {
			defers = into.(**deferred)
		}
		*defers = &deferred{
			fn:    fn,
			args:  args,
			instr: instr,
			tail:  *defers,
		}

	case *ssa.Go:
		fr.i.x.abandon("go statement (goroutines are not modelled)")

	case *ssa.MakeChan:
		fr.env[instr] = make(chan value, asInt64(fr.get(instr.Size)))

	case *ssa.Alloc:
		var addr *value
		if instr.Heap {
			// new
			addr = new(value)
			fr.env[instr] = addr
			*addr = zero(mustDeref(instr.Type()))
			fr.i.x.markFresh(addr)
		} else {
			// local
			addr = fr.env[instr].(*value)
			if fr.i.x.spec > 0 {
				fr.i.x.onStore(addr)
			}
			*addr = zero(mustDeref(instr.Type()))
			if fr.i.x.spec > 0 && fr.i.x.freshCells[addr] {
				fr.i.x.markFreshVal(*addr)
			}
		}

	case *ssa.MakeSlice:
		if lv, isSym := fr.get(instr.Len).(sym); isSym && fr.get(instr.Cap) == fr.get(instr.Len) {
			if st, ok := instr.Type().Underlying().(*types.Slice); ok {
				if b, ok := st.Elem().Underlying().(*types.Basic); ok && b.Kind() == types.Uint8 && fr.i.x.isBytesLen(lv.t) {
					fr.env[instr] = &byteBuf{n: lv.t}
					break
				}
			}
		}
		ncap := asInt64(fr.i.x.concretize(fr.get(instr.Cap), "make cap"))
		nlen := asInt64(fr.i.x.concretize(fr.get(instr.Len), "make len"))
		if nlen < 0 || ncap < nlen {
			panic("makeslice: len out of range")
		}
		if ncap > 1<<20 {
			fr.i.x.abandon("make: slice larger than 2^20 elements")
		}
		slice := make([]value, ncap)
		tElt := instr.Type().Underlying().(*types.Slice).Elem()
		for i := range slice {
			slice[i] = zero(tElt)
		}
		fr.i.x.markFreshSlice(slice)
		fr.env[instr] = slice[:nlen]

	case *ssa.MakeMap:
		mm := makeMap(instr.Type().Underlying().(*types.Map).Key(), 0)
		if fr.i.x.spec > 0 {
			fr.i.x.freshMaps[mm.(*omap)] = true
		}
		fr.env[instr] = mm

	case *ssa.Range:
		fr.env[instr] = rangeIter(fr.i.x, fr.get(instr.X), instr.X.Type())

	case *ssa.Next:
		fr.env[instr] = fr.get(instr.Iter).(iter).next()

	case *ssa.FieldAddr:
		fr.env[instr] = &(*fr.get(instr.X).(*value)).(structure)[instr.Field]

	case *ssa.Field:
		fr.env[instr] = fr.get(instr.X).(structure)[instr.Field]

	case *ssa.IndexAddr:
		x := fr.get(instr.X)
		idx := fr.get(instr.Index)
		switch x := x.(type) {
		case []value:
			idx = fr.i.x.boundIndex(idx, len(x))
			fr.env[instr] = &x[asInt64(idx)]
		case *value: // *array
			a := (*x).(array)
			idx = fr.i.x.boundIndex(idx, len(a))
			fr.env[instr] = &a[asInt64(idx)]
		default:
			panic(fmt.Sprintf("unexpected x type in IndexAddr: %T", x))
		}

	case *ssa.Index:
		x := fr.get(instr.X)
		idx := fr.get(instr.Index)

		switch x := x.(type) {
		case array:
			idx = fr.i.x.boundIndex(idx, len(x))
			fr.env[instr] = x[asInt64(idx)]
		case string:
			if isSym(idx) {
				fr.env[instr] = fr.i.x.strIndex(x, idx)
			} else {
				fr.env[instr] = x[asInt64(idx)]
			}
		case sym:
			fr.env[instr] = fr.i.x.strIndex(x, idx)
		default:
			panic(fmt.Sprintf("unexpected x type in Index: %T", x))
		}

	case *ssa.Lookup:
		fr.env[instr] = lookup(fr.i.x, instr, fr.get(instr.X), fr.get(instr.Index))

	case *ssa.MapUpdate:
		m := fr.get(instr.Map).(*omap)
		if m == nil {
			panic("assignment to entry in nil map")
		}
		fr.i.x.specMapWrite(m)
		fr.i.x.frozenMapWrite(m)
		m.insert(fr.i.x, fr.get(instr.Key), fr.get(instr.Value))

	case *ssa.TypeAssert:
		fr.env[instr] = typeAssert(fr.i, instr, fr.get(instr.X).(iface))

	case *ssa.MakeClosure:
		var bindings []value
		for _, binding := range instr.Bindings {
			bindings = append(bindings, fr.get(binding))
		}
		fr.env[instr] = &closure{instr.Fn.(*ssa.Function), bindings}

	case *ssa.Phi:
		log.Fatal("unreachable") // phis are processed at block entry

	case *ssa.Select:
		fr.i.x.abandon("select statement (channels are not modelled)")

	default:
		panic(fmt.Sprintf("unexpected instruction: %T", instr))
	}

	// if val, ok := instr.(ssa.Value); ok {
	// 	fmt.Println(toString(fr.env[val])) // debugging
	// }

	return kNext
}

// prepareCall determines the function value and argument values for a
// function call in a Call, Go or Defer instruction, performing
// interface method lookup if needed.
func prepareCall(fr *frame, call *ssa.CallCommon) (fn value, args []value) {
	v := fr.get(call.Value)
	if call.Method == nil {
		// Function call.
		fn = v
	} else {
		// Interface method invocation.
		recv := v.(iface)
		if recv.t == nil {
			panic("method invoked on nil interface")
		}
		if f := lookupMethod(fr.i, recv.t, call.Method); f == nil {
			// Unreachable in well-typed programs.
			panic(fmt.Sprintf("method set for dynamic type %v does not contain %s", recv.t, call.Method))
		} else {
			fn = f
		}
		args = append(args, recv.v)
	}
	for _, arg := range call.Args {
		args = append(args, fr.get(arg))
	}
	return
}

// call interprets a call to a function (function, builtin or closure)
// fn with arguments args, returning its result.
// callpos is the position of the callsite.
func call(i *interpreter, caller *frame, callpos token.Pos, fn value, args []value) value {
	switch fn := fn.(type) {
	case *ssa.Function:
		if fn == nil {
			panic("call of nil function") // nil of func type
		}
		return callSSA(i, caller, callpos, fn, args, nil)
	case *closure:
		return callSSA(i, caller, callpos, fn.Fn, args, fn.Env)
	case *ssa.Builtin:
		return callBuiltin(caller, callpos, fn, args)
	}
	panic(fmt.Sprintf("cannot call %T", fn))
}

func loc(fset *token.FileSet, pos token.Pos) string {
	if pos == token.NoPos {
		return ""
	}
	return " at " + fset.Position(pos).String()
}

// callSSA interprets a call to function fn with arguments args,
// and lexical environment env, returning its result.
// callpos is the position of the callsite.
func callSSA(i *interpreter, caller *frame, callpos token.Pos, fn *ssa.Function, args []value, env []value) value {
	fr := &frame{
		i:      i,
		caller: caller, // for panic/recover
		fn:     fn,
	}
	x := i.x
	fr.specBorn = x.spec
	fr.caller = caller
	if fn.Parent() == nil {
		name := fn.String()
		for k := range args {
			args[k] = norm(args[k])
		}
		if r, ok := callIntrinsic(fr, fn, args); ok {
			return r
		}
		if ext := externals[name]; ext != nil {
			if x.spec > 0 && !pureExternal(name) {
				panic(specAbort{"impure stub " + name})
			}
			x.stubs[name] = true
			return ext(fr, args)
		}
		if fn.Name() == "init" && fn.Signature.Recv() == nil && !i.cfg.interpreted(fn) {
			return nil // foreign package initialisers are not run
		}
		if !i.cfg.interpreted(fn) {
			return callNative(fr, fn, args)
		}
		if fn.Blocks == nil {
			x.abandon("no code for function: " + name)
		}
	} else if !i.cfg.interpreted(fn) {
		x.abandon("closure of non-interpreted function " + fn.String())
	}
	x.depth++
	if x.depth > x.maxDepth {
		if x.spec > 0 {
			panic(specAbort{"call depth limit"})
		}
		// reported as a crash finding; the native replay decides whether the real program overflows its stack
		x.concretePanicAt("unbounded recursion: call depth limit " + fmt.Sprint(x.maxDepth) + " exceeded in " + fn.Name())
		panic(pathEnd{"call depth limit reached in " + fn.String()})
	}
	defer func() { x.depth-- }()
	if x.calls != nil && fn.Pkg != nil && x.inHarness {
		x.calls[fn.String()] = true
	}
	saveTop := i.top
	i.top = fr
	defer func() { i.top = saveTop }()

	// generic function body?
	if fn.TypeParams().Len() > 0 && len(fn.TypeArgs()) == 0 {
		panic("interp requires ssa.BuilderMode to include InstantiateGenerics to execute generics")
	}

	fr.env = make(map[ssa.Value]value)
	fr.block = fn.Blocks[0]
	fr.locals = make([]value, len(fn.Locals))
	for i, l := range fn.Locals {
		fr.locals[i] = zero(mustDeref(l.Type()))
		fr.env[l] = &fr.locals[i]
		x.markFresh(&fr.locals[i])
	}
	for i, p := range fn.Params {
		fr.env[p] = args[i]
	}
	for i, fv := range fn.FreeVars {
		fr.env[fv] = env[i]
	}
	for fr.block != nil {
		runFrame(fr)
	}
	// Destroy the locals to avoid accidental use after return.
	for i := range fn.Locals {
		fr.locals[i] = bad{}
	}
	return fr.result
}

// runFrame executes SSA instructions starting at fr.block and
// continuing until a return, a panic, or a recovered panic.
//
// After a panic, runFrame panics.
//
// After a normal return, fr.result contains the result of the call
// and fr.block is nil.
//
// A recovered panic in a function without named return parameters
// (NRPs) becomes a normal return of the zero value of the function's
// result type.
//
// After a recovered panic in a function with NRPs, fr.result is
// undefined and fr.block contains the block at which to resume
// control.
func runFrame(fr *frame) {
	defer func() {
		if fr.block == nil {
			return // normal return
		}
		if fr.i.mode&DisableRecover != 0 {
			return // let interpreter crash
		}
		r := recover()
		switch r.(type) {
		case pathEnd, abandonPanic, enginePanic, specAbort:
			panic(r)
		}
		fr.panicking = true
		fr.panic = r
		fr.runDefers()
		fr.block = fr.fn.Recover
	}()

	for {
		if fr.i.mode&EnableTracing != 0 {
			fmt.Fprintf(os.Stderr, ".%s:\n", fr.block)
		}

		nonPhis := executePhis(fr)
		for _, instr := range nonPhis {
			fr.i.x.tick()
			fr.cur = instr
			if visitInstr(fr, instr) == kReturn {
				return
			}
			// Inv: kNext (continue) or kJump (last instr)
		}
	}
}

// executePhis executes the phi-nodes at the start of the current
// block and returns the non-phi instructions.
func executePhis(fr *frame) []ssa.Instruction {
	firstNonPhi := -1
	for i, instr := range fr.block.Instrs {
		if _, ok := instr.(*ssa.Phi); !ok {
			firstNonPhi = i
			break
		}
	}
	// Inv: 0 <= firstNonPhi; every block contains a non-phi.

	nonPhis := fr.block.Instrs[firstNonPhi:]
	if fr.mergedPhis != nil {
		mp := fr.mergedPhis
		fr.mergedPhis = nil
		for phi, v := range mp {
			fr.env[phi] = v
		}
		return nonPhis
	}
	if firstNonPhi > 0 {
		phis := fr.block.Instrs[:firstNonPhi]
		// Execute parallel assignment of phis.
		//
		// See "the swap problem" in Briggs et al's "Practical Improvements
		// to the Construction and Destruction of SSA Form" for discussion.
		predIndex := slices.Index(fr.block.Preds, fr.prevBlock)
		fr.phitemps = fr.phitemps[:0]
		for _, phi := range phis {
			phi := phi.(*ssa.Phi)
			fr.phitemps = append(fr.phitemps, fr.get(phi.Edges[predIndex]))
		}
		for i, phi := range phis {
			fr.env[phi.(*ssa.Phi)] = fr.phitemps[i]
		}
	}
	return nonPhis
}

// doRecover implements the recover() built-in.
func doRecover(caller *frame) value {
	// recover() must be exactly one level beneath the deferred
	// function (two levels beneath the panicking function) to
	// have any effect.  Thus we ignore both "defer recover()" and
	// "defer f() -> g() -> recover()".
	if caller.i.mode&DisableRecover == 0 &&
		caller != nil && !caller.panicking &&
		caller.caller != nil && caller.caller.panicking {
		caller.caller.panicking = false
		p := caller.caller.panic
		caller.caller.panic = nil

		// TODO(adonovan): support runtime.Goexit.
		switch p := p.(type) {
		case targetPanic:
			// The target program explicitly called panic().
			return p.v
		case runtime.Error:
			// The interpreter encountered a runtime error.
			return iface{caller.i.runtimeErrorString, p.Error()}
		case string:
			// The interpreter explicitly called panic().
			return iface{caller.i.runtimeErrorString, p}
		default:
			panic(fmt.Sprintf("unexpected panic type %T in target call to recover()", p))
		}
	}
	return iface{}
}
