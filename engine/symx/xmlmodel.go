package symx

// Tag-derived model of encoding/xml's marshaller (DESIGN.md §4): the token
// stream that xml.Marshal(v) would produce, computed from the struct tags (via
// go/types) of the snapshot carried by a blob. Hand-written MarshalXML methods
// of wordZero are executed from their SSA against the recording Encoder, so
// element order and omission logic of the real code is what gets modelled.
// The real Decoder's view (namespace resolution, xmlns attributes, indentation
// CharData) is reproduced by the decoder stub in xmldec.go. The model is
// validated against the real encoding/xml on every run by the witness replays:
// harness code that decodes a part runs the real Decoder natively and the stub
// symbolically, and both must reach the same labels.

import (
	"go/types"
	"reflect"
	"strings"
)

const (
	tkStart = iota + 1
	tkEnd
	tkChar
	tkProcInst
	tkComment
	tkRaw // innerxml: raw text spliced into the stream
)

type xattr struct {
	name  string // as written: "w:val", "xmlns:w"
	val   value  // string or sym(string)
	pre   bool   // harness-supplied: space/local already resolved
	space value
	local value
}

type xtok struct {
	kind  int
	name  string // as written: "w:p"
	attrs []xattr
	text  value // chardata / raw / procinst body
	// harness-supplied tokens (zzvTokenDecoder) carry their names already resolved:
	pre   bool
	space value
	local value
}

type fieldTag struct {
	name      string
	attr      bool
	chardata  bool
	innerxml  bool
	omitempty bool
	comment   bool
	any       bool
	skip      bool
}

func parseXMLTag(st *types.Struct, i int) fieldTag {
	f := st.Field(i)
	tag := reflect.StructTag(st.Tag(i)).Get("xml")
	ft := fieldTag{}
	if tag == "-" {
		ft.skip = true
		return ft
	}
	parts := strings.Split(tag, ",")
	ft.name = parts[0]
	for _, fl := range parts[1:] {
		switch fl {
		case "attr":
			ft.attr = true
		case "chardata":
			ft.chardata = true
		case "innerxml":
			ft.innerxml = true
		case "omitempty":
			ft.omitempty = true
		case "comment":
			ft.comment = true
		case "any":
			ft.any = true
		case "cdata":
			ft.chardata = true
		}
	}
	if ft.name == "" && !ft.chardata && !ft.innerxml && !ft.comment && !ft.any {
		ft.name = f.Name()
	}
	return ft
}

type xmlModeler struct {
	fr      *frame
	out     []xtok
	indent  bool
	depth   int
	raw     bool
	started bool
	kids    []bool
}

func (m *xmlModeler) x() *exec { return m.fr.i.x }

// hasMarshalXML returns the MarshalXML method of *T (or T) if T implements xml.Marshaler.
func (m *xmlModeler) marshalerOf(t types.Type) (fn value, ptrRecv bool) {
	prog := m.fr.i.prog
	for _, cand := range []struct {
		t   types.Type
		ptr bool
	}{{t, false}, {types.NewPointer(t), true}} {
		if _, isPtr := t.Underlying().(*types.Pointer); isPtr && cand.ptr {
			continue
		}
		ms := prog.MethodSets.MethodSet(cand.t)
		for i := 0; i < ms.Len(); i++ {
			sel := ms.At(i)
			if sel.Obj().Name() != "MarshalXML" {
				continue
			}
			sig := sel.Type().(*types.Signature)
			if sig.Params().Len() != 2 {
				continue
			}
			f := prog.MethodValue(sel)
			if f != nil {
				return f, cand.ptr
			}
		}
	}
	return nil, false
}

// isEmpty follows encoding/xml's isEmptyValue; symbolic strings/ints are decided by the solver.
func (m *xmlModeler) isEmpty(v value, t types.Type) bool {
	x := m.x()
	switch ut := t.Underlying().(type) {
	case *types.Basic:
		switch {
		case ut.Info()&types.IsString != 0:
			if s, ok := v.(string); ok {
				return s == ""
			}
			return x.decide(x.tb.Eq(x.term(v), x.tb.StrC("")))
		case ut.Info()&types.IsBoolean != 0:
			if b, ok := v.(bool); ok {
				return !b
			}
			return !x.decide(x.term(v))
		case ut.Info()&types.IsNumeric != 0:
			if isSym(v) {
				return x.decide(x.tb.Eq(x.term(v), x.tb.IntC(0)))
			}
			switch n := v.(type) {
			case float64:
				return n == 0
			case float32:
				return n == 0
			}
			return asInt64(v) == 0
		}
	case *types.Pointer:
		p, _ := v.(*value)
		return p == nil
	case *types.Interface:
		itf, _ := v.(iface)
		return itf.t == nil
	case *types.Slice:
		switch s := v.(type) {
		case []value:
			return len(s) == 0
		case *blob:
			return false
		case symBytes:
			return x.decide(x.tb.Eq(s.t, x.tb.StrC("")))
		}
	case *types.Map:
		mm, _ := v.(*omap)
		return mm.len() == 0
	}
	return false
}

// scalarText renders a basic value the way encoding/xml does for attributes and text.
func (m *xmlModeler) scalarText(v value, t types.Type) (value, bool) {
	x := m.x()
	b, ok := t.Underlying().(*types.Basic)
	if !ok {
		return nil, false
	}
	switch {
	case b.Info()&types.IsString != 0:
		return v, true
	case b.Info()&types.IsBoolean != 0:
		if c, ok := v.(bool); ok {
			if c {
				return "true", true
			}
			return "false", true
		}
		return x.mkSym(types.String, x.tb.Ite(x.term(v), x.tb.StrC("true"), x.tb.StrC("false"))), true
	case b.Info()&types.IsInteger != 0:
		if isSym(v) {
			return x.mkSym(types.String, x.tb.Itoa(x.term(v))), true
		}
		return x.concat("", sprintInt(v)), true
	case b.Info()&types.IsFloat != 0:
		if f, ok := v.(float64); ok {
			return strconvFloat(f), true
		}
	}
	return nil, false
}

// open/close reproduce encoding/xml's printer.writeIndent: with MarshalIndent a newline plus
// indentation precedes every start tag except the very first, and an end tag exactly when
// the element had child elements.
func (m *xmlModeler) open(tok xtok) {
	if m.indent && m.started {
		m.out = append(m.out, xtok{kind: tkChar, text: "\n" + strings.Repeat("  ", m.depth)})
	}
	m.started = true
	if n := len(m.kids); n > 0 {
		m.kids[n-1] = true
	}
	m.out = append(m.out, tok)
	m.kids = append(m.kids, false)
	m.depth++
}

func (m *xmlModeler) close(name string) {
	m.depth--
	n := len(m.kids)
	if n == 0 {
		m.x().abandon("xmlmodel: unbalanced end element written by a MarshalXML method")
	}
	had := m.kids[n-1]
	m.kids = m.kids[:n-1]
	if m.indent && had {
		m.out = append(m.out, xtok{kind: tkChar, text: "\n" + strings.Repeat("  ", m.depth)})
	}
	m.out = append(m.out, xtok{kind: tkEnd, name: name})
}

// marshal appends the tokens for value v of static type t. fieldName is the name the
// parent's field tag supplies (""), start overrides everything (EncodeElement).
func (m *xmlModeler) marshal(v value, t types.Type, fieldName string, start *xtok) {
	x := m.x()
	if m.depth > 60 {
		x.abandon("xmlmodel: nesting deeper than 60")
	}
	// interfaces and pointers
	switch ut := t.Underlying().(type) {
	case *types.Interface:
		itf, _ := v.(iface)
		if itf.t == nil {
			return
		}
		m.marshal(itf.v, itf.t, fieldName, start)
		return
	case *types.Pointer:
		p, _ := v.(*value)
		if p == nil {
			return
		}
		if fn, _ := m.marshalerOf(t); fn != nil {
			m.callMarshaler(fn, v, t, fieldName, start)
			return
		}
		m.marshalAddr(p, ut.Elem(), fieldName, start)
		return
	}
	cell := v
	m.marshalAddr(&cell, t, fieldName, start)
}

// marshalAddr marshals the (addressable) value *p of non-pointer type t.
func (m *xmlModeler) marshalAddr(p *value, t types.Type, fieldName string, start *xtok) {
	x := m.x()
	if fn, ptrRecv := m.marshalerOf(t); fn != nil {
		if ptrRecv {
			m.callMarshaler(fn, p, types.NewPointer(t), fieldName, start)
		} else {
			m.callMarshaler(fn, *p, t, fieldName, start)
		}
		return
	}
	v := *p
	switch ut := t.Underlying().(type) {
	case *types.Pointer, *types.Interface:
		m.marshal(v, t, fieldName, start)
		return
	case *types.Slice:
		if b, ok := ut.Elem().Underlying().(*types.Basic); ok && b.Kind() == types.Byte {
			x.abandon("xmlmodel: []byte element content")
		}
		sl, _ := v.([]value)
		for i := range sl {
			m.marshalAddr(&sl[i], ut.Elem(), fieldName, start)
		}
		return
	case *types.Struct:
		m.marshalStruct(v.(structure), t, ut, fieldName, start)
		return
	case *types.Basic:
		name := fieldName
		if start != nil {
			name = start.name
		}
		if name == "" {
			name = typeName(t)
		}
		txt, ok := m.scalarText(v, t)
		if !ok {
			x.abandon("xmlmodel: unsupported scalar element of type " + t.String())
		}
		m.open(xtok{kind: tkStart, name: name})
		if s, isC := txt.(string); !isC || s != "" {
			m.out = append(m.out, xtok{kind: tkChar, text: txt})
		}
		m.close(name)
		return
	}
	x.abandon("xmlmodel: unsupported type " + t.String())
}

func typeName(t types.Type) string {
	if n, ok := t.(*types.Named); ok {
		return n.Obj().Name()
	}
	return "value"
}

func (m *xmlModeler) marshalStruct(sv structure, t types.Type, st *types.Struct, fieldName string, start *xtok) {
	x := m.x()
	name := ""
	var startAttrs []xattr
	if start != nil {
		name = start.name
		startAttrs = start.attrs
	} else {
		// XMLName tag, then XMLName value
		for i := 0; i < st.NumFields(); i++ {
			if st.Field(i).Name() == "XMLName" {
				ft := parseXMLTag(st, i)
				if ft.name != "" && ft.name != "XMLName" {
					name = ft.name
				} else if nv, ok := sv[i].(structure); ok && len(nv) == 2 {
					if l, ok := nv[1].(string); ok && l != "" {
						name = l
					}
				}
			}
		}
		if name == "" {
			name = fieldName
		}
		if name == "" {
			name = typeName(t)
		}
	}
	if strings.Contains(name, ">") || strings.Contains(name, " ") {
		x.abandon("xmlmodel: a>b / namespaced tag names are not modelled: " + name)
	}
	tok := xtok{kind: tkStart, name: name, attrs: append([]xattr(nil), startAttrs...)}
	type child struct {
		i  int
		ft fieldTag
	}
	var children []child
	for i := 0; i < st.NumFields(); i++ {
		f := st.Field(i)
		if f.Name() == "XMLName" || !f.Exported() {
			continue
		}
		ft := parseXMLTag(st, i)
		if ft.skip {
			continue
		}
		if f.Embedded() {
			x.abandon("xmlmodel: embedded struct fields are not modelled in " + t.String())
		}
		if ft.attr {
			fv, ftT := sv[i], f.Type()
			if p, isPtr := ftT.Underlying().(*types.Pointer); isPtr {
				pv, _ := fv.(*value)
				if pv == nil {
					continue
				}
				fv, ftT = *pv, p.Elem()
			}
			if ft.omitempty && m.isEmpty(fv, ftT) {
				continue
			}
			txt, ok := m.scalarText(fv, ftT)
			if !ok {
				x.abandon("xmlmodel: unsupported attribute type " + ftT.String())
			}
			tok.attrs = append(tok.attrs, xattr{name: ft.name, val: txt})
			continue
		}
		children = append(children, child{i, ft})
	}
	m.open(tok)
	for _, c := range children {
		f := st.Field(c.i)
		fv := sv[c.i]
		switch {
		case c.ft.chardata:
			txt, ok := m.scalarText(fv, f.Type())
			if !ok {
				if sb, isSB := fv.(symBytes); isSB {
					txt, ok = x.mkSym(types.String, sb.t), true
				}
			}
			if !ok {
				x.abandon("xmlmodel: unsupported chardata type " + f.Type().String())
			}
			if s, isC := txt.(string); !isC || s != "" {
				m.out = append(m.out, xtok{kind: tkChar, text: txt})
			}
		case c.ft.innerxml:
			var txt value
			switch r := fv.(type) {
			case string, sym:
				txt = r
			case symBytes:
				txt = x.mkSym(types.String, r.t)
			case []value:
				txt = x.bytesToSymString(r)
			default:
				x.abandon("xmlmodel: unsupported innerxml type")
			}
			if s, isC := txt.(string); !isC || s != "" {
				m.raw = true
				m.out = append(m.out, xtok{kind: tkRaw, text: txt})
			}
		case c.ft.comment:
			x.abandon("xmlmodel: comment fields are not modelled")
		case c.ft.any:
			// ",any" fields: marshalled like elements named by their own XMLName
			if !m.isEmpty(fv, f.Type()) {
				m.marshal(fv, f.Type(), "", nil)
			}
		default:
			if c.ft.omitempty && m.isEmpty(fv, f.Type()) {
				continue
			}
			m.marshal(fv, f.Type(), c.ft.name, nil)
		}
	}
	m.close(name)
}

// callMarshaler runs a hand-written MarshalXML against the recorder and splices its output.
func (m *xmlModeler) callMarshaler(fn value, recv value, recvT types.Type, fieldName string, start *xtok) {
	x := m.x()
	name := fieldName
	var attrs []value
	if start != nil {
		name = start.name
	}
	if name == "" || start == nil {
		// default start element name as encoding/xml computes it for the receiver's type
		et := recvT
		var sv value = recv
		if p, ok := recvT.Underlying().(*types.Pointer); ok {
			et = p.Elem()
			if pv, _ := recv.(*value); pv != nil {
				sv = *pv
			}
		}
		if st, ok := et.Underlying().(*types.Struct); ok {
			for i := 0; i < st.NumFields(); i++ {
				if st.Field(i).Name() == "XMLName" {
					ft := parseXMLTag(st, i)
					if ft.name != "" && ft.name != "XMLName" {
						name = ft.name
					} else if s, ok := sv.(structure); ok {
						if nv, ok := s[i].(structure); ok && len(nv) == 2 {
							if l, ok := nv[1].(string); ok && l != "" {
								name = l
							}
						}
					}
				}
			}
		}
		if name == "" {
			name = fieldName
		}
		if name == "" {
			name = typeName(et)
		}
	}
	rec := &encRec{}
	startVal := structure{structure{"", name}, attrs}
	res := call(m.fr.i, m.fr, 0, fn, []value{recv, native{rec}, startVal})
	if itf, ok := res.(iface); ok && itf.t != nil {
		x.abandon("xmlmodel: a MarshalXML method returned an error")
	}
	m.spliceEvents(rec)
}

func xnameOf(v value) string {
	s, _ := v.(structure)
	if len(s) != 2 {
		return ""
	}
	sp, _ := s[0].(string)
	lo, _ := s[1].(string)
	if sp != "" {
		return sp + " " + lo
	}
	return lo
}

func (m *xmlModeler) spliceEvents(rec *encRec) {
	x := m.x()
	for _, ev := range rec.events {
		switch ev.kind {
		case "start":
			st := ev.v.(iface).v.(structure)
			tok := xtok{kind: tkStart, name: xnameOf(st[0])}
			if as, ok := st[1].([]value); ok {
				for _, a := range as {
					av := a.(structure)
					tok.attrs = append(tok.attrs, xattr{name: xnameOf(av[0]), val: av[1]})
				}
			}
			m.open(tok)
		case "end":
			st := ev.v.(iface).v.(structure)
			m.close(xnameOf(st[0]))
		case "chardata":
			var txt value
			switch b := ev.v.(iface).v.(type) {
			case []value:
				txt = x.bytesToSymString(b)
				if s, ok := concreteBytes(b); ok {
					txt = s
				}
			case symBytes:
				txt = x.mkSym(types.String, b.t)
			}
			m.out = append(m.out, xtok{kind: tkChar, text: txt})
		case "encode":
			itf := ev.v.(iface)
			if itf.t != nil {
				m.marshal(itf.v, itf.t, "", nil)
			}
		case "element":
			itf := ev.v.(iface)
			if itf.t == nil {
				continue
			}
			st := ev.start.(structure)
			tok := xtok{kind: tkStart, name: xnameOf(st[0])}
			if as, ok := st[1].([]value); ok {
				for _, a := range as {
					av := a.(structure)
					tok.attrs = append(tok.attrs, xattr{name: xnameOf(av[0]), val: av[1]})
				}
			}
			m.marshal(itf.v, itf.t, "", &tok)
		default:
			x.abandon("xmlmodel: unsupported token kind written by a MarshalXML method: " + ev.kind)
		}
	}
}

func concreteBytes(b []value) (string, bool) {
	out := make([]byte, len(b))
	for i, e := range b {
		c, ok := e.(uint8)
		if !ok {
			return "", false
		}
		out[i] = c
	}
	return string(out), true
}

// blobTokens returns (and caches) the token stream of a Marshal blob, including a
// leading xml.Header when the code prepended one.
func (x *exec) blobTokens(fr *frame, b *blob) []xtok {
	if b.tokens != nil {
		return b.tokens
	}
	m := &xmlModeler{fr: fr, indent: b.indent}
	if b.prefix != "" {
		if strings.HasPrefix(b.prefix, "<?xml ") && strings.HasSuffix(strings.TrimRight(b.prefix, "\n"), "?>") {
			body := strings.TrimSuffix(strings.TrimPrefix(strings.TrimRight(b.prefix, "\n"), "<?xml "), "?>")
			m.out = append(m.out, xtok{kind: tkProcInst, name: "xml", text: body})
			if strings.HasSuffix(b.prefix, "\n") {
				m.out = append(m.out, xtok{kind: tkChar, text: "\n"})
			}
		} else {
			x.abandon("xmlmodel: blob with an unrecognised prefix")
		}
	}
	if b.eager {
		m.out = append(m.out, b.valTokens...)
	} else {
		m.marshal(b.snap, b.typ, "", nil)
	}
	b.tokens = m.out
	if m.raw {
		b.raw = true
	}
	return b.tokens
}

func sprintInt(v value) string {
	switch n := v.(type) {
	case uint, uint8, uint16, uint32, uint64, uintptr:
		return strconvUint(asUint64(n))
	}
	return strconvInt(asInt64(v))
}
