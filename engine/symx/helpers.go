package symx

import (
	"fmt"
	"go/types"

	"gosx/smt"
)

// enginePanic is an internal error of the engine (never a verdict).
type enginePanic struct{ msg string }

// native wraps an opaque host value (e.g. a compiled *regexp.Regexp) that
// interpreted code only passes around.
type native struct{ v interface{} }

// boundIndex emits the index-in-range obligation for a symbolic index and
// concretises it.
func (x *exec) boundIndex(idx value, n int) value {
	s, ok := idx.(sym)
	if !ok {
		return idx
	}
	tb := x.tb
	x.obligation(tb.And(tb.Le(tb.IntC(0), s.t), tb.Lt(s.t, tb.IntC(int64(n)))), "panic: index out of range", true)
	return x.concretize(idx, "index")
}

// strIndex is s[i] on a string where s or i is symbolic: a byte.
func (x *exec) strIndex(sv value, idx value) value {
	tb := x.tb
	st, it := x.term(sv), x.term(idx)
	x.obligation(tb.And(tb.Le(tb.IntC(0), it), tb.Lt(it, tb.StrLen(st))), "panic: string index out of range", true)
	return x.mkSym(types.Uint8, tb.ToCode(tb.StrAt(st, it)))
}

// strSlice is s[lo:hi] on a symbolic string.
func (x *exec) strSlice(s sym, lo, hi value) value {
	tb := x.tb
	n := tb.StrLen(s.t)
	tl, th := tb.IntC(0), n
	if lo != nil {
		tl = x.term(lo)
	}
	if hi != nil {
		th = x.term(hi)
	}
	x.obligation(tb.And(tb.Le(tb.IntC(0), tl), tb.Le(tl, th), tb.Le(th, n)), "panic: string slice bounds out of range", true)
	return x.mkSym(types.String, tb.Substr(s.t, tl, tb.Sub(th, tl)))
}

// bytesToSymString builds a string term from a slice of (possibly symbolic) bytes.
func (x *exec) bytesToSymString(bs []value) value {
	tb := x.tb
	parts := make([]*smt.Term, len(bs))
	for i, b := range bs {
		switch b := b.(type) {
		case sym:
			parts[i] = tb.FromCode(b.t)
		case uint8:
			parts[i] = tb.StrC(string([]byte{b}))
		default:
			panic(fmt.Sprintf("bytesToSymString: %T", b))
		}
	}
	return x.mkSym(types.String, tb.Concat(parts...))
}

// onStore is called before every store through a pointer.
func (x *exec) onStore(addr *value) {
	if addr == nil {
		panic("runtime error: invalid memory address or nil pointer dereference")
	}
	if x.frozen != nil && x.frozen[addr] {
		x.frozenWrite()
	}
	if x.spec > 0 {
		x.specStore(addr)
	}
	if x.gtrace != nil {
		x.gtrace.store(addr)
	}
}

func (x *exec) onLoad(addr *value) {
	if x.gtrace != nil {
		x.gtrace.load(addr)
	}
}

func (x *exec) frozenWrite() {
	x.stats.Obligations++
	_, m := x.query(x.tb.True, true)
	x.recordFailure("frozen: store into an object that must not be modified ("+x.frozenWhat+")", false, m)
}

// frozenMapWrite: an insert into / delete from a map that must not be modified.
func (x *exec) frozenMapWrite(m *omap) {
	for _, f := range x.frozenMaps {
		if f == m {
			x.frozenWrite()
			return
		}
	}
}

// freeze marks every memory cell reachable from v as read-only.
func (x *exec) freeze(v value, what string) {
	if x.frozen == nil {
		x.frozen = map[*value]bool{}
	}
	x.frozenWhat = what
	seenMap := map[*omap]bool{}
	var walk func(v value)
	var cell func(p *value)
	cell = func(p *value) {
		if p == nil || x.frozen[p] {
			return
		}
		x.frozen[p] = true
		walk(*p)
	}
	walk = func(v value) {
		switch v := v.(type) {
		case *value:
			cell(v)
		case structure:
			for i := range v {
				cell(&v[i])
			}
		case array:
			for i := range v {
				cell(&v[i])
			}
		case []value:
			full := v[:cap(v)]
			for i := range full {
				cell(&full[i])
			}
		case iface:
			walk(v.v)
		case *omap:
			if v == nil || seenMap[v] {
				return
			}
			seenMap[v] = true
			x.frozenMaps = append(x.frozenMaps, v)
			for i := range v.vals {
				walk(v.keys[i])
				walk(v.vals[i])
			}
		case *closure:
			for _, e := range v.Env {
				walk(e)
			}
		}
	}
	walk(v)
}

func (x *exec) unfreeze() { x.frozen = nil; x.frozenMaps = nil }

// reachable collects all memory cells reachable from v (for disjointness checks).
func reachableCells(v value) map[*value]bool {
	out := map[*value]bool{}
	seenMap := map[*omap]bool{}
	var walk func(v value)
	var cell func(p *value)
	cell = func(p *value) {
		if p == nil || out[p] {
			return
		}
		out[p] = true
		walk(*p)
	}
	walk = func(v value) {
		switch v := v.(type) {
		case *value:
			cell(v)
		case structure:
			for i := range v {
				cell(&v[i])
			}
		case array:
			for i := range v {
				cell(&v[i])
			}
		case []value:
			full := v[:cap(v)]
			for i := range full {
				cell(&full[i])
			}
		case iface:
			walk(v.v)
		case *omap:
			if v == nil || seenMap[v] {
				return
			}
			seenMap[v] = true
			for i := range v.vals {
				walk(v.keys[i])
				walk(v.vals[i])
			}
		case *closure:
			for _, e := range v.Env {
				walk(e)
			}
		}
	}
	walk(v)
	return out
}

// growCap reproduces runtime.growslice's capacity computation (go1.20+):
// doubling below 256 elements, then (cap + 3*256)/4 growth, then rounding the
// byte size up to a malloc size class.
func growCap(elemSize int64, oldCap, newLen int) int {
	newcap := oldCap
	doublecap := newcap + newcap
	if newLen > doublecap {
		newcap = newLen
	} else {
		const threshold = 256
		if oldCap < threshold {
			newcap = doublecap
		} else {
			for 0 < newcap && newcap < newLen {
				newcap += (newcap + 3*threshold) / 4
			}
			if newcap <= 0 {
				newcap = newLen
			}
		}
	}
	if elemSize <= 0 {
		return newcap
	}
	mem := roundupsize(uintptr(int64(newcap) * elemSize))
	return int(int64(mem) / elemSize)
}

var sizeClasses = []uintptr{0, 8, 16, 24, 32, 48, 64, 80, 96, 112, 128, 144, 160, 176, 192, 208, 224, 240, 256, 288, 320, 352, 384, 416, 448, 480, 512, 576, 640, 704, 768, 896, 1024, 1152, 1280, 1408, 1536, 1792, 2048, 2304, 2688, 3072, 3200, 3456, 4096, 4864, 5376, 6144, 6528, 6784, 6912, 8192, 9472, 9728, 10240, 10880, 12288, 13568, 14336, 16384, 18432, 19072, 20480, 21760, 24576, 27264, 28672, 32768}

func roundupsize(size uintptr) uintptr {
	if size <= 32768 {
		for _, c := range sizeClasses {
			if c >= size {
				return c
			}
		}
	}
	const page = 8192
	return (size + page - 1) / page * page
}
