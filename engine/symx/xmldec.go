package symx

// Stub of encoding/xml.Decoder at its API boundary (DESIGN.md §4). A decoder
// reads either the token model of a Marshal blob (xmlmodel.go), the real
// tokens of concrete bytes (the real xml.Decoder runs natively), or a token
// list supplied by a harness. It reports names the way the real Decoder does:
// prefixes resolved through the xmlns attributes in scope, xmlns:* attributes
// in space "xmlns".

import (
	"bytes"
	"encoding/xml"
	"go/types"
	"io"
	"strings"

	"golang.org/x/tools/go/ssa"
)

type readerObj struct{ src value }

type decObj struct {
	harness  bool     // tokens supplied by a harness (zzvTokenDecoder)
	hstack   []xtok   // harness mode: start elements still open
	outer    []string // harness mode: enclosing elements already open at the start
	closeAll bool     // harness mode: after the tokens everything open is closed, then io.EOF; else a syntax error follows
	closing  bool
	toks     []xtok
	pos      int
	scopes   []map[string]string
	err      value // sticky error (iface) once returned
	tail     error // concrete syntax error of natively decoded input, reported after the tokens
	calls    int
	afterErr int // Token() calls made after an error was returned
}

func (i *interpreter) xmlType(name string) types.Type {
	p := i.prog.ImportedPackage("encoding/xml")
	if p == nil {
		panic(enginePanic{"encoding/xml is not part of the program"})
	}
	return p.Type(name).Type()
}

func (i *interpreter) foreignGlobalValue(pkg, name string) value {
	p := i.prog.ImportedPackage(pkg)
	g := p.Members[name].(*ssa.Global)
	return *i.globals[g]
}

// tokensOfConcrete runs the real decoder over concrete bytes.
func tokensOfConcrete(data []byte) ([]xtok, error) {
	d := xml.NewDecoder(bytes.NewReader(data))
	var out []xtok
	for {
		t, err := d.RawToken()
		if err == io.EOF {
			return out, nil
		}
		if err != nil {
			return out, err
		}
		switch t := t.(type) {
		case xml.StartElement:
			tok := xtok{kind: tkStart, name: rawName(t.Name)}
			for _, a := range t.Attr {
				tok.attrs = append(tok.attrs, xattr{name: rawName(a.Name), val: a.Value})
			}
			out = append(out, tok)
		case xml.EndElement:
			out = append(out, xtok{kind: tkEnd, name: rawName(t.Name)})
		case xml.CharData:
			out = append(out, xtok{kind: tkChar, text: string(t)})
		case xml.ProcInst:
			out = append(out, xtok{kind: tkProcInst, name: t.Target, text: string(t.Inst)})
		case xml.Comment:
			out = append(out, xtok{kind: tkComment, text: string(t)})
		case xml.Directive:
			out = append(out, xtok{kind: tkComment, name: "directive", text: string(t)})
		}
	}
}

func rawName(n xml.Name) string {
	if n.Space != "" {
		return n.Space + ":" + n.Local
	}
	return n.Local
}

func (x *exec) newDecoderOver(fr *frame, src value) *decObj {
	d := &decObj{}
	switch s := src.(type) {
	case *blob:
		d.toks = x.blobTokens(fr, s)
	case string:
		d.toks, d.tail = tokensOfConcrete([]byte(s))
	case []value:
		str, ok := concreteBytes(s)
		if !ok {
			x.abandon("xml.NewDecoder over element-wise symbolic bytes")
		}
		d.toks, d.tail = tokensOfConcrete([]byte(str))
	default:
		x.abandon("xml.NewDecoder over a symbolic byte string that is not a Marshal blob")
	}
	// expand concrete raw (innerxml) tokens
	var out []xtok
	for _, t := range d.toks {
		if t.kind == tkRaw {
			s, ok := t.text.(string)
			if !ok {
				x.abandon("xml decoding of a part that contains caller-supplied raw XML with symbolic content")
			}
			inner, err := tokensOfConcrete([]byte(s))
			out = append(out, inner...)
			if err != nil {
				d.toks, d.tail = out, err
				return d
			}
			continue
		}
		out = append(out, t)
	}
	d.toks = out
	return d
}

func splitQName(n string) (prefix, local string) {
	if i := strings.Index(n, ":"); i > 0 && i < len(n)-1 {
		return n[:i], n[i+1:]
	}
	return "", n
}

func (d *decObj) lookup(prefix string) (string, bool) {
	for i := len(d.scopes) - 1; i >= 0; i-- {
		if u, ok := d.scopes[i][prefix]; ok {
			return u, true
		}
	}
	return "", false
}

func (d *decObj) translate(n string, isAttr bool) value {
	if sp := strings.Index(n, " "); sp > 0 {
		return structure{n[:sp], n[sp+1:]} // "space local" names written by MarshalXML code
	}
	prefix, local := splitQName(n)
	switch {
	case prefix == "xmlns":
		return structure{"xmlns", local}
	case prefix == "" && isAttr:
		return structure{"", local}
	case prefix == "":
		if u, ok := d.lookup(""); ok {
			return structure{u, local}
		}
		return structure{"", local}
	case prefix == "xml":
		return structure{"http://www.w3.org/XML/1998/namespace", local}
	}
	if u, ok := d.lookup(prefix); ok {
		return structure{u, local}
	}
	return structure{prefix, local}
}

func bytesValue(x *exec, txt value) value {
	switch t := txt.(type) {
	case string:
		out := make([]value, len(t))
		for i := 0; i < len(t); i++ {
			out[i] = t[i]
		}
		return out
	case sym:
		return symBytes{t.t}
	case nil:
		return []value{}
	}
	panic(enginePanic{"bytesValue"})
}

// next returns the next token as an interpreter value of type xml.Token.
func (d *decObj) next(fr *frame) value {
	i := fr.i
	x := i.x
	d.calls++
	if d.err != nil {
		d.afterErr++
		if d.afterErr > 3 {
			// a decoder error is sticky: a loop that keeps asking can never leave
			panic("hang: the reader keeps calling Decoder.Token() after it returned an error (" + fr.fn.Name() + ")")
		}
		return tuple{iface{}, d.err}
	}
	if d.harness {
		return d.nextHarness(fr)
	}
	if d.pos >= len(d.toks) {
		if d.tail != nil {
			d.err = i.mkError("XML syntax error: " + d.tail.Error())
		} else if len(d.scopes) > 0 {
			d.err = i.mkError("XML syntax error: unexpected EOF")
		} else {
			d.err = i.foreignGlobalValue("io", "EOF")
		}
		return tuple{iface{}, d.err}
	}
	t := d.toks[d.pos]
	d.pos++
	switch t.kind {
	case tkStart:
		scope := map[string]string{}
		for _, a := range t.attrs {
			if a.name == "xmlns" || strings.HasPrefix(a.name, "xmlns:") {
				u, ok := a.val.(string)
				if !ok {
					x.abandon("symbolic namespace declaration")
				}
				if a.name == "xmlns" {
					scope[""] = u
				} else {
					scope[a.name[6:]] = u
				}
			}
		}
		d.scopes = append(d.scopes, scope)
		attrs := make([]value, 0, len(t.attrs))
		for _, a := range t.attrs {
			attrs = append(attrs, structure{d.translate(a.name, true), a.val})
		}
		var av value = attrs
		if len(attrs) == 0 {
			av = []value{}
		}
		return tuple{iface{i.xmlType("StartElement"), structure{d.translate(t.name, false), av}}, iface{}}
	case tkEnd:
		if len(d.scopes) == 0 {
			d.err = i.mkError("XML syntax error: unexpected end element </" + t.name + ">")
			return tuple{iface{}, d.err}
		}
		name := d.translate(t.name, false)
		d.scopes = d.scopes[:len(d.scopes)-1]
		return tuple{iface{i.xmlType("EndElement"), structure{name}}, iface{}}
	case tkChar:
		return tuple{iface{i.xmlType("CharData"), bytesValue(x, t.text)}, iface{}}
	case tkProcInst:
		return tuple{iface{i.xmlType("ProcInst"), structure{t.name, bytesValue(x, t.text)}}, iface{}}
	case tkComment:
		if t.name == "directive" {
			return tuple{iface{i.xmlType("Directive"), bytesValue(x, t.text)}, iface{}}
		}
		return tuple{iface{i.xmlType("Comment"), bytesValue(x, t.text)}, iface{}}
	}
	panic(enginePanic{"decoder: bad token kind"})
}

const mainNS = "http://schemas.openxmlformats.org/wordprocessingml/2006/main"

// nextHarness: token stream supplied by zzvTokenDecoder. End elements take the name of the
// start element they close (the real decoder rejects anything else), the stream ends as the
// real one does: with the closing tags of everything open and io.EOF, or with a syntax error.
func (d *decObj) nextHarness(fr *frame) value {
	i := fr.i
	if d.pos >= len(d.toks) {
		if !d.closeAll {
			d.err = i.mkError("XML syntax error: unexpected EOF")
			return tuple{iface{}, d.err}
		}
		if !d.closing {
			d.closing = true
			for k := len(d.hstack) - 1; k >= 0; k-- {
				d.toks = append(d.toks, xtok{kind: tkEnd, pre: true, space: d.hstack[k].space, local: d.hstack[k].local})
			}
			d.hstack = nil
			for k := len(d.outer) - 1; k >= 0; k-- {
				d.toks = append(d.toks, xtok{kind: tkEnd, pre: true, space: mainNS, local: d.outer[k]})
			}
			d.toks = append(d.toks, xtok{kind: tkEnd, pre: true, space: "", local: "zzroot"})
		}
		if d.pos >= len(d.toks) {
			d.err = i.foreignGlobalValue("io", "EOF")
			return tuple{iface{}, d.err}
		}
	}
	t := d.toks[d.pos]
	d.pos++
	switch t.kind {
	case tkStart:
		d.hstack = append(d.hstack, t)
		attrs := make([]value, 0, len(t.attrs))
		for _, a := range t.attrs {
			attrs = append(attrs, structure{structure{a.space, a.local}, a.val})
		}
		return tuple{iface{i.xmlType("StartElement"), structure{structure{t.space, t.local}, attrs}}, iface{}}
	case tkEnd:
		if d.closing {
			return tuple{iface{i.xmlType("EndElement"), structure{structure{t.space, t.local}}}, iface{}}
		}
		if len(d.hstack) == 0 {
			panic(pathEnd{"harness token stream closes more than it opened"})
		}
		st := d.hstack[len(d.hstack)-1]
		d.hstack = d.hstack[:len(d.hstack)-1]
		return tuple{iface{i.xmlType("EndElement"), structure{structure{st.space, st.local}}}, iface{}}
	case tkChar:
		return tuple{iface{i.xmlType("CharData"), bytesValue(i.x, t.text)}, iface{}}
	case tkComment:
		return tuple{iface{i.xmlType("Comment"), bytesValue(i.x, t.text)}, iface{}}
	}
	panic(enginePanic{"harness decoder: bad token kind"})
}

const reXMLName = `(re.++ (re.union (re.range "A" "Z") (re.range "a" "z") (str.to_re "_")) ((_ re.loop 0 11) (re.union (re.range "A" "Z") (re.range "a" "z") (re.range "0" "9") (str.to_re "_"))))`
const reXMLText = `((_ re.loop 0 16) (re.range " " "~"))`

// newTokenDecoder implements zzvTokenDecoder(outer, toks, closeAll).
func (x *exec) newTokenDecoder(outerV, toksV, closeAllV value) *decObj {
	d := &decObj{harness: true}
	if b, ok := closeAllV.(bool); ok {
		d.closeAll = b
	} else {
		d.closeAll = x.decide(x.term(closeAllV))
	}
	ol, _ := outerV.([]value)
	for _, o := range ol {
		s, ok := o.(string)
		if !ok {
			panic(enginePanic{"zzvTokenDecoder: names of enclosing elements must be constant"})
		}
		d.outer = append(d.outer, s)
	}
	tb := x.tb
	nameOK := func(v value) {
		if sv, ok := v.(sym); ok {
			x.assume(tb.InRe(sv.t, reXMLName))
			x.assume(tb.Not(tb.Eq(sv.t, tb.StrC("xmlns"))))
		}
	}
	textOK := func(v value) {
		if sv, ok := v.(sym); ok {
			x.assume(tb.InRe(sv.t, reXMLText))
		}
	}
	space := func(v value) value {
		b, ok := v.(bool)
		if !ok {
			b = x.decide(x.term(v))
		}
		if b {
			return mainNS
		}
		return ""
	}
	tl, _ := toksV.([]value)
	prevChar := false
	for _, tv := range tl {
		st := tv.(structure)
		kind := int(asInt64(x.concretize(st[0], "token kind")))
		switch kind {
		case 0:
			t := xtok{kind: tkStart, pre: true, space: space(st[1]), local: st[2]}
			nameOK(st[2])
			am, _ := st[3].([]value)
			al, _ := st[4].([]value)
			av, _ := st[5].([]value)
			for k := range al {
				nameOK(al[k])
				textOK(av[k])
				for j := 0; j < k; j++ {
					x.assume(tb.Not(tb.Eq(x.term(al[k]), x.term(al[j]))))
				}
				t.attrs = append(t.attrs, xattr{pre: true, space: space(am[k]), local: al[k], val: av[k]})
			}
			d.toks = append(d.toks, t)
			prevChar = false
		case 1:
			d.toks = append(d.toks, xtok{kind: tkEnd, pre: true})
			prevChar = false
		case 2:
			if prevChar {
				panic(pathEnd{"two adjacent character-data tokens (the real decoder merges them)"})
			}
			textOK(st[6])
			x.assume(tb.Not(tb.Eq(x.term(st[6]), tb.StrC(""))))
			d.toks = append(d.toks, xtok{kind: tkChar, pre: true, text: st[6]})
			prevChar = true
		case 3:
			d.toks = append(d.toks, xtok{kind: tkComment, pre: true, text: "c"})
			prevChar = false
		default:
			panic(enginePanic{"zzvTokenDecoder: token kind out of range"})
		}
	}
	return d
}

func init() {
	mkReader := func(fr *frame, args []value) value { return native{&readerObj{args[0]}} }
	externals["bytes.NewReader"] = mkReader
	externals["strings.NewReader"] = mkReader
	externals["bytes.NewBuffer"] = mkReader
	externals["bytes.NewBufferString"] = mkReader
	externals["encoding/xml.NewDecoder"] = func(fr *frame, args []value) value {
		itf, _ := args[0].(iface)
		n, ok := itf.v.(native)
		if !ok {
			fr.i.x.abandon("xml.NewDecoder over an un-modelled reader")
		}
		switch r := n.v.(type) {
		case *readerObj:
			return native{fr.i.x.newDecoderOver(fr, r.src)}
		case *decObj:
			return native{r}
		}
		fr.i.x.abandon("xml.NewDecoder over an un-modelled reader")
		return nil
	}
	externals["(*encoding/xml.Decoder).Token"] = func(fr *frame, args []value) value {
		n, ok := args[0].(native)
		if !ok {
			fr.i.x.abandon("Token on an un-modelled decoder")
		}
		d, ok := n.v.(*decObj)
		if !ok || d == nil {
			panic("runtime error: invalid memory address or nil pointer dereference")
		}
		return d.next(fr)
	}
}
