package symx

// Recording stub of encoding/xml.Encoder (DESIGN.md §4): hand-written MarshalXML
// methods of wordZero are executed from their SSA against this recorder, so that
// the element order/omission logic is verified rather than assumed.

import (
	"go/types"
	"strings"
)

type encEvent struct {
	kind  string // "start", "end", "chardata", "encode", "element"
	v     value  // token (iface of structure) or encoded value (iface)
	start value  // EncodeElement: the start element (structure)
}

type encRec struct {
	events []encEvent
}

// fieldOf returns field `name` of struct value sv of (named) struct type t.
func fieldOf(t types.Type, sv value, name string) (value, types.Type, bool) {
	if p, ok := t.Underlying().(*types.Pointer); ok {
		pv, _ := sv.(*value)
		if pv == nil {
			return nil, nil, false
		}
		return fieldOf(p.Elem(), *pv, name)
	}
	st, ok := t.Underlying().(*types.Struct)
	if !ok {
		return nil, nil, false
	}
	s, ok := sv.(structure)
	if !ok {
		return nil, nil, false
	}
	for i := 0; i < st.NumFields(); i++ {
		if st.Field(i).Name() == name {
			return s[i], st.Field(i).Type(), true
		}
	}
	return nil, nil, false
}

func shortTypeName(t types.Type) string {
	s := types.TypeString(t, func(*types.Package) string { return "" })
	return s
}

func init() {
	recv := func(fr *frame, v value) *encRec {
		n, ok := v.(native)
		if !ok {
			fr.i.x.abandon("xml.Encoder method on a non-recorder encoder")
		}
		r, ok := n.v.(*encRec)
		if !ok || r == nil {
			panic("runtime error: invalid memory address or nil pointer dereference")
		}
		return r
	}
	externals["encoding/xml.NewEncoder"] = func(fr *frame, args []value) value { return native{&encRec{}} }
	externals["(*encoding/xml.Encoder).Indent"] = func(fr *frame, args []value) value { return nil }
	externals["(*encoding/xml.Encoder).Flush"] = func(fr *frame, args []value) value { return iface{} }
	externals["(*encoding/xml.Encoder).Close"] = func(fr *frame, args []value) value { return iface{} }
	externals["(*encoding/xml.Encoder).EncodeToken"] = func(fr *frame, args []value) value {
		r := recv(fr, args[0])
		itf := args[1].(iface)
		kind := "token"
		if itf.t != nil {
			switch shortTypeName(itf.t) {
			case "StartElement":
				kind = "start"
			case "EndElement":
				kind = "end"
			case "CharData":
				kind = "chardata"
			}
		}
		r.events = append(r.events, encEvent{kind: kind, v: snapVal(itf, 0)})
		return iface{}
	}
	externals["(*encoding/xml.Encoder).Encode"] = func(fr *frame, args []value) value {
		r := recv(fr, args[0])
		r.events = append(r.events, encEvent{kind: "encode", v: args[1]})
		return iface{}
	}
	externals["(*encoding/xml.Encoder).EncodeElement"] = func(fr *frame, args []value) value {
		r := recv(fr, args[0])
		r.events = append(r.events, encEvent{kind: "element", v: args[1], start: snapVal(args[2], 0)})
		return iface{}
	}
	externals["(encoding/xml.StartElement).End"] = func(fr *frame, args []value) value {
		st := args[0].(structure)
		return structure{copyVal(st[0])}
	}
	externals["(encoding/xml.StartElement).Copy"] = func(fr *frame, args []value) value {
		return snapVal(args[0], 0)
	}
}

// bodyChildren runs (*Body).MarshalXML against the recorder and describes each encoded child.
func bodyChildren(fr *frame, body value, bodyT types.Type) value {
	x := fr.i.x
	ms := fr.i.prog.MethodSets.MethodSet(bodyT)
	m := ms.Lookup(nil, "MarshalXML")
	if m == nil {
		x.abandon("zzvBodyChildren: type has no MarshalXML")
	}
	f := fr.i.prog.MethodValue(m)
	rec := &encRec{}
	start := structure{structure{"", "w:body"}, []value(nil)}
	res := call(fr.i, fr, 0, f, []value{body, native{rec}, start})
	if itf, ok := res.(iface); ok && itf.t != nil {
		return []value{"error"}
	}
	var out []value
	depth := 0
	for _, ev := range rec.events {
		switch ev.kind {
		case "start":
			depth++
			if depth > 1 {
				out = append(out, "token-start")
			}
		case "end":
			depth--
		case "encode", "element":
			itf, _ := ev.v.(iface)
			if itf.t == nil {
				out = append(out, "nil")
				continue
			}
			name := shortTypeName(itf.t)
			name = strings.TrimPrefix(name, "*")
			if i := strings.LastIndex(name, "."); i >= 0 {
				name = name[i+1:]
			}
			var desc value = name
			if name == "Paragraph" {
				if runs, rt, ok := fieldOf(itf.t, itf.v, "Runs"); ok {
					if rs, _ := runs.([]value); len(rs) > 0 {
						et := rt.Underlying().(*types.Slice).Elem()
						if txt, tt, ok := fieldOf(et, rs[0], "Text"); ok {
							if c, _, ok := fieldOf(tt, txt, "Content"); ok {
								desc = x.concat(name+":", c)
							}
						}
					}
				}
			}
			out = append(out, desc)
		}
	}
	if depth != 0 {
		out = append(out, "unbalanced")
	}
	return out
}
