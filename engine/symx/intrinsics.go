package symx

// Harness intrinsics: functions named zzv* declared in the harness runtime file
// (native twins used for replay) are intercepted here by name.

import (
	"fmt"
	"go/types"
	"math/big"
	"strings"

	"golang.org/x/tools/go/ssa"
	"gosx/smt"
)

type globalTrace struct {
	written map[*value]bool
	phase   int
	hits    []string
}

func (g *globalTrace) store(p *value) {}
func (g *globalTrace) load(p *value)  {}

func intrinsicName(fn *ssa.Function) string {
	n := fn.Name()
	if strings.HasPrefix(n, "zzv") && fn.Parent() == nil && fn.Signature.Recv() == nil {
		return n
	}
	return ""
}

func (x *exec) nondet(kind string, k types.BasicKind, s smt.Sort) sym {
	v := x.fresh("n"+kind[:1], s)
	x.nondets = append(x.nondets, NondetVal{Kind: kind, Term: v})
	return sym{k, v}
}

func (x *exec) constStr(v value, what string) string {
	s, ok := v.(string)
	if !ok {
		panic(enginePanic{what + " must be a constant string"})
	}
	return s
}

func asBoolTerm(x *exec, v value) *smt.Term {
	return x.term(v)
}

// callIntrinsic returns (result, true) if fn is an intrinsic.
func callIntrinsic(fr *frame, fn *ssa.Function, args []value) (value, bool) {
	name := intrinsicName(fn)
	if name == "" {
		return nil, false
	}
	x := fr.i.x
	tb := x.tb
	if x.spec > 0 {
		switch name {
		case "zzvInt", "zzvIntIn", "zzvBool", "zzvChoice", "zzvFloat", "zzvFloatIn", "zzvString", "zzvBlob", "zzvByteString", "zzvPrintable", "zzvWord",
			"zzvAssume", "zzvKnown", "zzvKnownEnd", "zzvFreeze", "zzvUnfreeze", "zzvFloatMag", "zzvFloatRel", "zzvTokenDecoder", "zzvFill", "zzvAssertSame", "zzvAssertDisjoint", "zzvBodyChildren":
			panic(specAbort{"intrinsic " + name + " in a speculative arm"})
		}
	}
	switch name {
	case "zzvInt":
		s := x.nondet("int", types.Int, smt.Int)
		lo, hi := new(big.Int).Neg(pow2(63)), new(big.Int).Sub(pow2(63), big.NewInt(1))
		x.assume(tb.And(tb.Le(tb.BigC(lo), s.t), tb.Le(s.t, tb.BigC(hi))))
		return s, true
	case "zzvIntIn":
		s := x.nondet("int", types.Int, smt.Int)
		x.assume(tb.And(tb.Le(x.term(args[0]), s.t), tb.Le(s.t, x.term(args[1]))))
		return s, true
	case "zzvBool":
		return x.nondet("bool", types.Bool, smt.Bool), true
	case "zzvChoice":
		// concrete choice in [0,n): forked
		n := asInt64(x.concretize(args[0], "choice bound"))
		s := x.nondet("int", types.Int, smt.Int)
		x.assume(tb.And(tb.Le(tb.IntC(0), s.t), tb.Lt(s.t, tb.IntC(n))))
		return x.concretize(s, "choice"), true
	case "zzvFloat":
		return x.nondet("float", types.Float64, smt.Real), true
	case "zzvFloatIn":
		s := x.nondet("float", types.Float64, smt.Real)
		x.assume(tb.And(tb.Le(x.term(args[0]), s.t), tb.Le(s.t, x.term(args[1]))))
		return s, true
	case "zzvString":
		return x.nondet("string", types.String, smt.Str), true
	case "zzvBlob":
		// arbitrary content; the native twin returns 256 KiB of incompressible bytes instead of
		// the model's value, so that a write of it passes the archive writer's 4 KiB buffer
		return x.nondet("string", types.String, smt.Str), true
	case "zzvPrintable":
		// a symbolic string of at most n characters out of tab, newline and printable ASCII
		n := asInt64(x.concretize(args[0], "max length"))
		sv := x.nondet("string", types.String, smt.Str)
		x.assume(tb.InRe(sv.t, fmt.Sprintf(`((_ re.loop 0 %d) (re.union (re.range " " "~") (str.to_re "\u{9}") (str.to_re "\u{a}")))`, n)))
		return sv, true
	case "zzvWord":
		// a symbolic word: 1..n lower-case letters
		n := asInt64(x.concretize(args[0], "max length"))
		sv := x.nondet("string", types.String, smt.Str)
		x.assume(tb.InRe(sv.t, fmt.Sprintf(`((_ re.loop 1 %d) (re.range "a" "z"))`, n)))
		return sv, true
	case "zzvByteString":
		// bounded byte-sequence string: length forked in [0,L], bytes symbolic
		L := asInt64(args[0])
		ln := x.nondet("int", types.Int, smt.Int)
		x.assume(tb.And(tb.Le(tb.IntC(0), ln.t), tb.Le(ln.t, tb.IntC(L))))
		n := asInt64(x.concretize(ln, "byte-string length"))
		parts := make([]*smt.Term, n)
		for i := range parts {
			b := x.nondet("byte", types.Uint8, smt.Int)
			x.assume(tb.And(tb.Le(tb.IntC(0), b.t), tb.Le(b.t, tb.IntC(255))))
			parts[i] = tb.FromCode(b.t)
			tb.MarkUnit(parts[i])
		}
		return x.mkSym(types.String, tb.Concat(parts...)), true
	case "zzvAssume":
		c := asBoolTerm(x, args[0])
		if c.IsConst() {
			if !c.B {
				panic(pathEnd{"assumption false"})
			}
			return nil, true
		}
		x.pc = append(x.pc, c)
		if x.checking() {
			if r, _ := x.query(tb.True, false); r == smt.Unsat {
				x.stats.InfeasiblePaths++
				panic(pathEnd{"assumption infeasible"})
			}
		}
		return nil, true
	case "zzvAssert":
		x.obligation(asBoolTerm(x, args[0]), x.constStr(args[1], "assert clause"), false)
		return nil, true
	case "zzvReach":
		label := x.constStr(args[0], "reach label")
		if x.spec > 0 && x.checking() {
			// inside a joined arm the label counts only if the arm is feasible
			if r, _ := x.query(tb.True, false); r != smt.Sat {
				return nil, true
			}
		}
		x.reached = append(x.reached, label)
		if x.checking() && x.needWit != nil && x.needWit(label) {
			if r, m := x.query(tb.True, true); r == smt.Sat {
				var kc []string
				for _, f := range x.failures {
					if f.Known != "" {
						kc = append(kc, f.Clause)
					}
				}
				x.wits = append(x.wits, Witness{Label: label, Model: m, Nondets: append([]NondetVal(nil), x.nondets...),
					Prefix: append([]Decision(nil), x.decisions...), KnownClauses: kc})
			}
		}
		return nil, true
	case "zzvKnown":
		key := x.constStr(args[0], "known-finding key")
		if x.knownKeys != nil && !x.knownKeys[key] {
			panic(enginePanic{"harness references unknown known-finding key " + key})
		}
		var prefixes []string
		if p := x.constStr(args[1], "clause prefixes"); p != "" {
			prefixes = strings.Split(p, "|")
		}
		x.known = append(x.known, knownRegion{key, prefixes})
		return nil, true
	case "zzvKnownEnd":
		key := x.constStr(args[0], "known-finding key")
		for i := len(x.known) - 1; i >= 0; i-- {
			if x.known[i].key == key {
				x.known = append(x.known[:i:i], x.known[i+1:]...)
				break
			}
		}
		return nil, true
	case "zzvBound":
		n := x.constStr(args[0], "bound name")
		v := asInt64(args[1])
		if x.tier == "thorough" {
			v = asInt64(args[2])
		}
		x.bounds[n] = v
		return int(v), true
	case "zzvNote":
		x.assumeNotes = append(x.assumeNotes, x.constStr(args[0], "note"))
		return nil, true
	case "zzvAnd":
		return x.and(args[0], args[1]), true
	case "zzvOr":
		return x.or(args[0], args[1]), true
	case "zzvNot":
		return x.not(args[0]), true
	case "zzvImplies":
		return x.or(x.not(args[0]), args[1]), true
	case "zzvIteInt", "zzvIteStr", "zzvIteFloat", "zzvIteBool":
		return x.iteVal(args[0], args[1], args[2]), true
	case "zzvFloatMag":
		x.floatMag = uint(asInt64(args[0]))
		return nil, true
	case "zzvMerge":
		// zzvMerge(false): explore the following branches by forking only (state merging off)
		x.noMerge = !args[0].(bool)
		return nil, true
	case "zzvFloatRel":
		x.floatRel = true
		return nil, true
	case "zzvAbsLE":
		// |a-b| <= tol on floats, one term (no forking)
		d := tb.Sub(x.term(args[0]), x.term(args[1]))
		return x.mkSym(types.Bool, tb.Le(tb.Abs(d), x.term(args[2]))), true
	case "zzvFill":
		x.fill(args[0])
		return nil, true
	case "zzvAssertDisjoint":
		x.assertDisjointIntrinsic(args[0], args[1], x.constStr(args[2], "label"))
		return nil, true
	case "zzvAssertSame":
		x.assertSameIntrinsic(args[0], args[1], x.constStr(args[2], "label"))
		return nil, true
	case "zzvTokenDecoder":
		return native{x.newTokenDecoder(args[0], args[1], args[2])}, true
	case "zzvTokensConsumedAfterError":
		d := args[0].(native).v.(*decObj)
		return d.afterErr, true
	case "zzvCrossLE":
		// |a*b - c*d| <= tol over the integers (exact, no machine arithmetic)
		d := tb.Sub(tb.Mul(x.term(args[0]), x.term(args[1])), tb.Mul(x.term(args[2]), x.term(args[3])))
		return x.mkSym(types.Bool, tb.Le(tb.Abs(d), x.term(args[4]))), true
	case "zzvFreeze":
		x.freeze(args[0], x.constStr(args[1], "freeze label"))
		return nil, true
	case "zzvUnfreeze":
		x.unfreeze()
		return nil, true
	case "zzvDisjoint":
		a, b := reachableCells(args[0]), reachableCells(args[1])
		for c := range a {
			if b[c] {
				return false, true
			}
		}
		return true, true
	case "zzvBodyChildren":
		return bodyChildren(fr, args[0], fn.Signature.Params().At(0).Type()), true
	case "zzvDeepCopy":
		itf := args[0].(iface)
		cp := snapVal(itf.v, 0)
		return iface{itf.t, cp}, true
	case "zzvFaultPath":
		// selects the fault mode of the I/O stubs and returns the path to save to
		k := int(asInt64(x.concretize(args[0], "fault kind")))
		w := x.world()
		w.faultKind = k
		return [...]string{"/zzv/ok/out.docx", "/zzv/notadir/x/out.docx", "/zzv/isadir", "/dev/full", "/zzv/ok/existing.docx"}[k], true
	case "zzvFaultsInjected":
		return len(x.world().failed), true
	case "zzvSameShape":
		return x.deepEq(args[0], args[1], map[[2]*value]bool{}, 0), true
	case "zzvIsSymbolic":
		return true, true
	case "zzvStrContains":
		return x.mkSym(types.Bool, tb.Contains(x.term(args[0]), x.term(args[1]))), true
	case "zzvStrHasPrefix":
		return x.mkSym(types.Bool, tb.PrefixOf(x.term(args[1]), x.term(args[0]))), true
	case "zzvStrHasSuffix":
		return x.mkSym(types.Bool, tb.SuffixOf(x.term(args[1]), x.term(args[0]))), true
	case "zzvItoa":
		t := x.term(args[0])
		return x.mkSym(types.String, tb.Itoa(t)), true
	}
	panic(enginePanic{fmt.Sprintf("unknown intrinsic %s", name)})
}
