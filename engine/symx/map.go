package symx

// omap: insertion-ordered map with linear lookup. Key equality may be symbolic,
// in which case the lookup forks on it. Go's randomised iteration order is NOT
// modelled: iteration is in insertion order (documented engine assumption).

import (
	"go/types"
)

type omap struct {
	kt   types.Type
	keys []value
	vals []value
}

func makeMap(kt types.Type, reserve int64) value {
	return &omap{kt: kt}
}

func (m *omap) find(ex *exec, k value) int {
	if m == nil {
		return -1
	}
	for i, mk := range m.keys {
		eq := ex.equals(m.kt, mk, k)
		switch e := eq.(type) {
		case bool:
			if e {
				return i
			}
		case sym:
			if ex.decide(e.t) {
				return i
			}
		}
	}
	return -1
}

func (m *omap) lookup(ex *exec, k value) (value, bool) {
	if i := m.find(ex, k); i >= 0 {
		return copyVal(m.vals[i]), true
	}
	return nil, false
}

func (m *omap) insert(ex *exec, k, v value) {
	if i := m.find(ex, k); i >= 0 {
		m.vals[i] = copyVal(v)
		return
	}
	m.keys = append(m.keys, copyVal(k))
	m.vals = append(m.vals, copyVal(v))
}

func (m *omap) delete(ex *exec, k value) {
	if i := m.find(ex, k); i >= 0 {
		m.keys = append(m.keys[:i:i], m.keys[i+1:]...)
		m.vals = append(m.vals[:i:i], m.vals[i+1:]...)
	}
}

func (m *omap) len() int {
	if m == nil {
		return 0
	}
	return len(m.keys)
}

type omapIter struct {
	keys, vals []value
	i          int
}

func (m *omap) iter() iter {
	if m == nil {
		return &omapIter{}
	}
	// snapshot: Go permits mutation during iteration; entries removed are not
	// revisited here, entries added may be missed (allowed by the spec).
	return &omapIter{keys: append([]value(nil), m.keys...), vals: append([]value(nil), m.vals...)}
}

func (it *omapIter) next() tuple {
	if it.i >= len(it.keys) {
		return tuple{false, nil, nil}
	}
	k, v := it.keys[it.i], it.vals[it.i]
	it.i++
	return tuple{true, k, copyVal(v)}
}
