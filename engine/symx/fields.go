package symx

// Type-driven intrinsics for round-trip and clone checks:
//
//   zzvFill(&v)                 populates every field of the struct v points to: strings with fresh
//                               symbolic strings (non-empty, printable), optional pointers with
//                               populated objects, slices with one populated element, bools/ints with
//                               fresh symbolic values; a struct type is entered at most once along
//                               a path (recursive types end there).
//   zzvAssertSame(a, b, label)  walks two values of the same type and raises one obligation per
//                               field path: "<label>: <Type>.<Field>.<Field> survives".
//
// The native twins (harness/rt) walk with reflection in the same order.

import (
	"go/types"
	"reflect"
	"strings"

	"gosx/smt"
)

const reFillText = `((_ re.loop 1 6) (re.range " " "~"))`

func isXMLName(t types.Type) bool {
	n, ok := t.(*types.Named)
	return ok && n.Obj().Pkg() != nil && n.Obj().Pkg().Path() == "encoding/xml" && n.Obj().Name() == "Name"
}

// xmlnsTag: "a" for a field tagged `xml:"xmlns:a,attr"`, "" otherwise.
func xmlnsTag(tag string) string {
	v := reflect.StructTag(tag).Get("xml")
	if i := strings.Index(v, ","); i >= 0 {
		v = v[:i]
	}
	if strings.HasPrefix(v, "xmlns:") {
		return v[6:]
	}
	return ""
}

var knownNS = map[string]string{
	"a":   "http://schemas.openxmlformats.org/drawingml/2006/main",
	"pic": "http://schemas.openxmlformats.org/drawingml/2006/picture",
	"wp":  "http://schemas.openxmlformats.org/drawingml/2006/wordprocessingDrawing",
	"r":   "http://schemas.openxmlformats.org/officeDocument/2006/relationships",
	"w":   "http://schemas.openxmlformats.org/wordprocessingml/2006/main",
	"m":   "http://schemas.openxmlformats.org/officeDocument/2006/math",
}

func nsURI(prefix string) string {
	if u, ok := knownNS[prefix]; ok {
		return u
	}
	return "urn:zzv:" + prefix
}

func typeKey(t types.Type) string {
	return types.TypeString(t, func(*types.Package) string { return "" })
}

// fillValue returns a populated value of type t.
func (x *exec) fillValue(t types.Type, onPath map[string]bool) value {
	tb := x.tb
	if isXMLName(t) {
		return zero(t)
	}
	switch ut := t.Underlying().(type) {
	case *types.Basic:
		switch {
		case ut.Kind() == types.String:
			s := x.nondet("string", types.String, smt.Str)
			x.assume(tb.InRe(s.t, reFillText))
			return s
		case ut.Kind() == types.Bool:
			return x.nondet("bool", types.Bool, smt.Bool)
		case ut.Info()&types.IsInteger != 0:
			s := x.nondet("int", ut.Kind(), smt.Int)
			x.assume(tb.And(tb.Le(tb.IntC(0), s.t), tb.Le(s.t, tb.IntC(1000))))
			return s
		}
		return zero(t)
	case *types.Struct:
		k := typeKey(t)
		if onPath[k] {
			return zero(t)
		}
		onPath[k] = true
		defer delete(onPath, k)
		st := make(structure, ut.NumFields())
		for i := 0; i < ut.NumFields(); i++ {
			if ns := xmlnsTag(ut.Tag(i)); ns != "" {
				st[i] = nsURI(ns) // namespace declarations are constants of the format, not data
				continue
			}
			st[i] = x.fillValue(ut.Field(i).Type(), onPath)
		}
		return st
	case *types.Pointer:
		if _, isStruct := ut.Elem().Underlying().(*types.Struct); !isStruct || onPath[typeKey(ut.Elem())] {
			return zero(t)
		}
		v := x.fillValue(ut.Elem(), onPath)
		return &v
	case *types.Slice:
		switch et := ut.Elem().Underlying().(type) {
		case *types.Struct:
			if onPath[typeKey(ut.Elem())] {
				return zero(t)
			}
			return []value{x.fillValue(ut.Elem(), onPath)}
		case *types.Pointer:
			if _, isStruct := et.Elem().Underlying().(*types.Struct); !isStruct || onPath[typeKey(et.Elem())] {
				return zero(t)
			}
			return []value{x.fillValue(ut.Elem(), onPath)}
		case *types.Basic:
			if et.Kind() == types.String {
				return []value{x.fillValue(ut.Elem(), onPath)}
			}
		}
		return zero(t)
	}
	return zero(t)
}

func (x *exec) fill(arg value) {
	itf, ok := arg.(iface)
	if !ok || itf.t == nil {
		panic(enginePanic{"zzvFill: argument must be a non-nil pointer to a struct"})
	}
	pt, ok := itf.t.Underlying().(*types.Pointer)
	if !ok {
		panic(enginePanic{"zzvFill: argument must be a pointer to a struct"})
	}
	p, _ := itf.v.(*value)
	if p == nil {
		panic(enginePanic{"zzvFill: nil pointer"})
	}
	v := x.fillValue(pt.Elem(), map[string]bool{})
	restoreCell(p, v)
}

// assertSame raises one obligation per field path.
func (x *exec) assertSame(t types.Type, a, b value, path, label string, depth int) {
	if depth > 60 {
		panic(enginePanic{"zzvAssertSame: nesting deeper than 60"})
	}
	if isXMLName(t) {
		return
	}
	tb := x.tb
	clause := label + ": " + path + " survives"
	switch ut := t.Underlying().(type) {
	case *types.Basic:
		_, sa := a.(sym)
		_, sb := b.(sym)
		if sa || sb {
			x.obligation(tb.Eq(x.term(a), x.term(b)), clause, false)
		} else {
			x.obligation(tb.BoolC(a == b), clause, false)
		}
	case *types.Struct:
		sa, ok1 := a.(structure)
		sb, ok2 := b.(structure)
		if !ok1 || !ok2 {
			x.obligation(tb.BoolC(false), clause, false)
			return
		}
		owner := shortKind(t)
		if owner == "" || strings.HasPrefix(owner, "struct") {
			owner = path
		}
		for i := 0; i < ut.NumFields(); i++ {
			if xmlnsTag(ut.Tag(i)) != "" {
				continue // namespace declarations are representation, not content
			}
			if owner == "Text" && ut.Field(i).Name() == "Space" {
				// xml:space matters only for text that exists: an empty w:t is not written at all
				ci := -1
				for k := 0; k < ut.NumFields(); k++ {
					if ut.Field(k).Name() == "Content" {
						ci = k
					}
				}
				if ci >= 0 {
					empty := tb.Eq(x.term(sa[ci]), tb.StrC(""))
					x.obligation(tb.Or(empty, tb.Eq(x.term(sa[i]), x.term(sb[i]))), label+": Text.Space survives", false)
					continue
				}
			}
			x.assertSame(ut.Field(i).Type(), sa[i], sb[i], owner+"."+ut.Field(i).Name(), label, depth+1)
		}
	case *types.Pointer:
		pa, _ := a.(*value)
		pb, _ := b.(*value)
		if pa == nil || pb == nil {
			x.obligation(tb.BoolC(pa == nil && pb == nil), clause, false)
			return
		}
		if pa == pb {
			return
		}
		x.assertSame(ut.Elem(), *pa, *pb, path, label, depth+1)
	case *types.Slice:
		la, lb := 0, 0
		va, _ := a.([]value)
		vb, _ := b.([]value)
		if _, isSB := a.(symBytes); isSB {
			x.obligation(asBoolTerm(x, x.bytesEqual(a, b)), clause, false)
			return
		}
		la, lb = len(va), len(vb)
		x.obligation(tb.BoolC(la == lb), label+": "+path+" keeps its number of elements", false)
		n := la
		if lb < n {
			n = lb
		}
		for i := 0; i < n; i++ {
			x.assertSame(ut.Elem(), va[i], vb[i], path+"[]", label, depth+1)
		}
	case *types.Interface:
		ia, _ := a.(iface)
		ib, _ := b.(iface)
		if ia.t == nil || ib.t == nil {
			x.obligation(tb.BoolC(ia.t == nil && ib.t == nil), clause, false)
			return
		}
		if !types.Identical(ia.t, ib.t) {
			x.obligation(tb.BoolC(false), label+": "+path+" keeps its kind", false)
			return
		}
		x.assertSame(ia.t, ia.v, ib.v, path+"("+shortKind(ia.t)+")", label, depth+1)
	case *types.Map:
		// not used by the body model
	}
}

func shortKind(t types.Type) string {
	s := typeKey(t)
	s = strings.TrimPrefix(s, "*")
	if i := strings.LastIndex(s, "."); i >= 0 {
		s = s[i+1:]
	}
	return s
}

func (x *exec) bytesEqual(a, b value) value {
	return x.mkSym(types.Bool, x.tb.Eq(x.bytesTerm(a), x.bytesTerm(b)))
}

func (x *exec) assertSameIntrinsic(a, b value, label string) {
	ia, ok1 := a.(iface)
	ib, ok2 := b.(iface)
	if !ok1 || !ok2 || ia.t == nil || ib.t == nil {
		x.obligation(x.tb.BoolC(ok1 && ok2 && ia.t == nil && ib.t == nil), label+": both values present", false)
		return
	}
	if !types.Identical(ia.t, ib.t) {
		x.obligation(x.tb.BoolC(false), label+": same kind of value", false)
		return
	}
	root := shortKind(ia.t)
	if root == "" || strings.HasPrefix(root, "[") {
		root = "elements"
	}
	x.assertSame(ia.t, ia.v, ib.v, root, label, 0)
}

// ---- zzvAssertDisjoint(a, b, label): one obligation per field path of a whose target memory is
// also reachable from b ("<label>: <Type>.<Field> is not shared").

func collectMaps(v value, out map[*omap]bool, seen map[*value]bool) {
	switch v := v.(type) {
	case *value:
		if v == nil || seen[v] {
			return
		}
		seen[v] = true
		collectMaps(*v, out, seen)
	case structure:
		for i := range v {
			collectMaps(v[i], out, seen)
		}
	case array:
		for i := range v {
			collectMaps(v[i], out, seen)
		}
	case []value:
		for i := range v {
			collectMaps(v[i], out, seen)
		}
	case iface:
		collectMaps(v.v, out, seen)
	case *omap:
		if v == nil || out[v] {
			return
		}
		out[v] = true
		for i := range v.vals {
			collectMaps(v.vals[i], out, seen)
		}
	}
}

func zeroSized(t types.Type) bool {
	st, ok := t.Underlying().(*types.Struct)
	return ok && st.NumFields() == 0
}

func (x *exec) assertDisjoint(t types.Type, v value, cellsB map[*value]bool, mapsB map[*omap]bool, seen map[*value]bool, path, label string, depth int) {
	if depth > 80 {
		return
	}
	tb := x.tb
	clause := label + ": " + path + " is not shared"
	switch ut := t.Underlying().(type) {
	case *types.Pointer:
		p, _ := v.(*value)
		if p == nil || seen[p] {
			return
		}
		seen[p] = true
		if !zeroSized(ut.Elem()) && cellsB[p] {
			x.obligation(tb.BoolC(false), clause, false)
			return
		}
		x.assertDisjoint(ut.Elem(), *p, cellsB, mapsB, seen, path, label, depth+1)
	case *types.Struct:
		sv, ok := v.(structure)
		if !ok {
			return
		}
		owner := shortKind(t)
		if owner == "" || strings.HasPrefix(owner, "struct") {
			owner = path
		}
		for i := 0; i < ut.NumFields(); i++ {
			x.assertDisjoint(ut.Field(i).Type(), sv[i], cellsB, mapsB, seen, owner+"."+ut.Field(i).Name(), label, depth+1)
		}
	case *types.Slice:
		sl, ok := v.([]value)
		if !ok || cap(sl) == 0 {
			return
		}
		full := sl[:cap(sl)]
		if cellsB[&full[0]] {
			x.obligation(tb.BoolC(false), clause, false)
			return
		}
		for i := range sl {
			x.assertDisjoint(ut.Elem(), sl[i], cellsB, mapsB, seen, path+"[]", label, depth+1)
		}
	case *types.Interface:
		itf, _ := v.(iface)
		if itf.t == nil {
			return
		}
		x.assertDisjoint(itf.t, itf.v, cellsB, mapsB, seen, path+"("+shortKind(itf.t)+")", label, depth+1)
	case *types.Map:
		m, _ := v.(*omap)
		if m == nil {
			return
		}
		if mapsB[m] {
			x.obligation(tb.BoolC(false), clause, false)
			return
		}
		for i := range m.vals {
			x.assertDisjoint(ut.Elem(), m.vals[i], cellsB, mapsB, seen, path+"[]", label, depth+1)
		}
	}
}

func (x *exec) assertDisjointIntrinsic(a, b value, label string) {
	ia, ok := a.(iface)
	if !ok || ia.t == nil {
		return
	}
	ib, _ := b.(iface)
	cellsB := reachableCells(ib.v)
	mapsB := map[*omap]bool{}
	collectMaps(ib.v, mapsB, map[*value]bool{})
	root := shortKind(ia.t)
	if root == "" || strings.HasPrefix(root, "[") {
		root = "elements"
	}
	x.assertDisjoint(ia.t, ia.v, cellsB, mapsB, map[*value]bool{}, root, label, 0)
}
