package main

import (
	"bufio"
	"encoding/json"
	"fmt"
	"math/big"
	"os"
	"path/filepath"
	"sort"
	"strconv"
	"strings"
	"time"

	"gosx/smt"
	"gosx/symx"
)

type runner struct {
	prop     string
	tier     string
	workers  int
	only     string
	verbose  bool
	noReplay bool
	seed     int
	t0       time.Time
}

type knownFinding struct {
	Property, Key, Text string
}

// readKnown parses /verif/KNOWN_FINDINGS.txt ("finding:" lines; "fixed:" lines are documentation).
func readKnown() (map[string]knownFinding, error) {
	out := map[string]knownFinding{}
	f, err := os.Open(filepath.Join(verifDir, "KNOWN_FINDINGS.txt"))
	if err != nil {
		if os.IsNotExist(err) {
			return out, nil
		}
		return nil, err
	}
	defer f.Close()
	sc := bufio.NewScanner(f)
	sc.Buffer(make([]byte, 1<<20), 1<<20)
	for sc.Scan() {
		line := strings.TrimSpace(sc.Text())
		if !strings.HasPrefix(line, "finding:") {
			continue
		}
		rest := strings.TrimSpace(strings.TrimPrefix(line, "finding:"))
		fs := strings.Fields(rest)
		var kf knownFinding
		n := 0
		for _, w := range fs {
			if strings.HasPrefix(w, "property=") && kf.Property == "" {
				kf.Property = strings.TrimPrefix(w, "property=")
				n++
			} else if strings.HasPrefix(w, "key=") && kf.Key == "" {
				kf.Key = strings.TrimPrefix(w, "key=")
				n++
			} else {
				break
			}
		}
		kf.Text = strings.Join(fs[n:], " ")
		if kf.Key != "" {
			out[kf.Key] = kf
		}
	}
	return out, sc.Err()
}

type replayCase struct {
	ID      string      `json:"id"`
	Harness string      `json:"harness"`
	Tier    string      `json:"tier"`
	Vals    []replayVal `json:"vals"`
}

type replayVal struct {
	K string  `json:"k"`
	I int64   `json:"i,omitempty"`
	B bool    `json:"b,omitempty"`
	F float64 `json:"f,omitempty"`
	S []byte  `json:"s,omitempty"`
}

type replayOut struct {
	ID             string   `json:"id"`
	Failed         []string `json:"failed"`
	Reached        []string `json:"reached"`
	Panic          string   `json:"panic"`
	AssumeViolated string   `json:"assume_violated"`
	Overrun        bool     `json:"overrun"`
	Unknown        bool     `json:"unknown_harness"`
}

type replayFile struct {
	Property string     `json:"property"`
	Package  string     `json:"package"`
	Clause   string     `json:"clause"`
	IsPanic  bool       `json:"is_panic"`
	Where    string     `json:"where"`
	Inputs   []string   `json:"inputs_readable"`
	Case     replayCase `json:"case"`
}

func modelVals(nd []symx.NondetVal, m *smt.Model) ([]replayVal, []string) {
	var out []replayVal
	var human []string
	for _, n := range nd {
		name := n.Term.Name
		switch n.Kind {
		case "int", "byte":
			var v int64
			if m != nil {
				if bi, ok := m.Ints[name]; ok {
					if bi.IsInt64() {
						v = bi.Int64()
					} else {
						v = new(big.Int).And(bi, new(big.Int).SetUint64(^uint64(0))).Int64()
					}
				}
			}
			out = append(out, replayVal{K: n.Kind, I: v})
			human = append(human, fmt.Sprintf("%s=%d", n.Kind, v))
		case "bool":
			v := m != nil && m.Bools[name]
			out = append(out, replayVal{K: "bool", B: v})
			human = append(human, fmt.Sprintf("bool=%v", v))
		case "float":
			var f float64
			if m != nil {
				if r, ok := m.Reals[name]; ok {
					f, _ = r.Float64()
				}
			}
			out = append(out, replayVal{K: "float", F: f})
			human = append(human, fmt.Sprintf("float=%v", f))
		case "string":
			s := ""
			if m != nil {
				s = m.Strs[name]
			}
			out = append(out, replayVal{K: "string", S: []byte(s)})
			human = append(human, fmt.Sprintf("string=%q", s))
		}
	}
	return out, human
}

// nativeReplay runs the cases against the real build through `go test -overlay`.
func nativeReplay(pkg string, cases []replayCase) (map[string]replayOut, error) {
	overlay, _, err := buildOverlay(true)
	if err != nil {
		return nil, err
	}
	tmp, err := os.MkdirTemp("", "zzv-replay-")
	if err != nil {
		return nil, err
	}
	defer os.RemoveAll(tmp)
	repl := map[string]string{}
	i := 0
	for virt, content := range overlay {
		real := filepath.Join(tmp, fmt.Sprintf("f%d_%s", i, filepath.Base(virt)))
		i++
		if err := os.WriteFile(real, content, 0o644); err != nil {
			return nil, err
		}
		repl[virt] = real
	}
	ov, _ := json.Marshal(map[string]interface{}{"Replace": repl})
	ovPath := filepath.Join(tmp, "overlay.json")
	os.WriteFile(ovPath, ov, 0o644)
	inPath := filepath.Join(tmp, "in.json")
	outPath := filepath.Join(tmp, "out.json")
	// build the test binary once, then run it; if the process dies (stack overflow, fatal
	// error) the cases are re-run one per process so that the crashing case is identified.
	bin := filepath.Join(tmp, "replay.test")
	out, err := runCmd(repoDir, goEnv(), 10*time.Minute, "go", "test", "-c", "-vet=off", "-overlay", ovPath, "-o", bin, "./pkg/"+pkg)
	if err != nil {
		return nil, fmt.Errorf("native replay: building the test binary failed (%v): %s", err, tail(out, 3000))
	}
	runCases := func(cs []replayCase) ([]replayOut, string, error) {
		b, _ := json.Marshal(cs)
		os.WriteFile(inPath, b, 0o644)
		os.Remove(outPath)
		env := append(goEnv(), "ZZV_REPLAY_IN="+inPath, "ZZV_REPLAY_OUT="+outPath)
		out, err := runCmd(filepath.Join(repoDir, "pkg", pkg), env, 10*time.Minute, bin, "-test.run", "^TestZZVReplay$", "-test.timeout", "9m")
		data, rerr := os.ReadFile(outPath)
		if rerr != nil {
			return nil, out, fmt.Errorf("no output (%v)", err)
		}
		var outs []replayOut
		if jerr := json.Unmarshal(data, &outs); jerr != nil {
			return nil, out, jerr
		}
		return outs, out, nil
	}
	res := map[string]replayOut{}
	outs, _, rerr := runCases(cases)
	if rerr == nil {
		for _, o := range outs {
			res[o.ID] = o
		}
		return res, nil
	}
	for _, c := range cases {
		outs, text, rerr := runCases([]replayCase{c})
		if rerr != nil {
			why := "process crashed"
			for _, l := range strings.Split(text, "\n") {
				if strings.Contains(l, "fatal error") || strings.Contains(l, "stack overflow") || strings.Contains(l, "goroutine stack exceeds") || strings.Contains(l, "hang:") {
					why = "process crashed: " + strings.TrimSpace(l)
					break
				}
			}
			res[c.ID] = replayOut{ID: c.ID, Panic: why}
			continue
		}
		for _, o := range outs {
			res[o.ID] = o
		}
	}
	return res, nil
}

func tail(s string, n int) string {
	if len(s) > n {
		return s[len(s)-n:]
	}
	return s
}

func reproduced(clause string, isPanic bool, o replayOut) bool {
	if o.AssumeViolated != "" || o.Unknown {
		return false
	}
	if isPanic {
		return o.Panic != ""
	}
	for _, f := range o.Failed {
		if f == clause {
			return true
		}
	}
	return false
}

type harnessEvidence struct {
	Harness      string           `json:"harness"`
	Paths        int              `json:"paths"`
	Decisions    int              `json:"solver_decided_branches"`
	Obligations  int              `json:"obligations"`
	Discharged   int              `json:"discharged"`
	Violations   int              `json:"violating_obligation_instances"`
	KnownHits    int              `json:"known_finding_obligation_instances"`
	Inconclusive int              `json:"inconclusive"`
	Abandoned    int              `json:"unsupported_paths"`
	Unwind       int              `json:"unwinding_failures"`
	Reached      map[string]int   `json:"reach_labels"`
	Bounds       map[string]int64 `json:"bounds"`
	EndReasons   map[string]int   `json:"path_end_reasons"`
	SolverTimeS  float64          `json:"solver_time_s"`
	Queries      int              `json:"solver_queries"`
	CacheHits    int              `json:"solver_cache_hits"`
	WallS        float64          `json:"wall_s"`
	Incomplete   string           `json:"incomplete,omitempty"`
	FloatErrVars int              `json:"float_rounding_error_vars,omitempty"`
	AbandonWhy   map[string]int   `json:"unsupported_reasons,omitempty"`
	InconclWhy   map[string]int   `json:"inconclusive_clauses,omitempty"`
	Merges       int              `json:"branches_joined_by_state_merging"`
}

func (r *runner) run() int {
	known, err := readKnown()
	if err != nil {
		fmt.Fprintln(os.Stderr, "KNOWN_FINDINGS.txt:", err)
		return 2
	}
	knownKeys := map[string]bool{}
	for k := range known {
		knownKeys[k] = true
	}
	prog, hs, err := loadProgram()
	if err != nil {
		fmt.Fprintf(os.Stderr, "load/build of %s with harness overlay failed (harness or tree does not compile):\n%v\n", repoDir, err)
		return 2
	}
	loadT := time.Since(r.t0)
	var mine []harnessSrc
	for _, h := range hs {
		if strings.HasPrefix(h.Name, "ZZH_"+r.prop+"_") && matchOnly(h.Name, r.only) {
			mine = append(mine, h)
		}
	}
	if len(mine) == 0 {
		fmt.Fprintf(os.Stderr, "no harness for property %s\n", r.prop)
		return 2
	}
	sort.Slice(mine, func(i, j int) bool { return mine[i].Name < mine[j].Name })

	opt := symx.Options{Tier: r.tier, Workers: r.workers, MaxPaths: 60000, MaxSteps: 3_000_000, MaxDepth: 400,
		TimeoutMS: 20000, Deadline: 8 * time.Minute, SolverPath: envOr("VERIF_Z3", "z3-new"), Verbose: r.verbose, KnownKeys: knownKeys,
		NoMerge: os.Getenv("VERIF_NOMERGE") != ""}
	if v, err := strconv.Atoi(os.Getenv("VERIF_MAXPATHS")); err == nil && v > 0 {
		opt.MaxPaths = v
	}
	if r.tier == "thorough" && os.Getenv("VERIF_MAXPATHS") == "" {
		opt.MaxPaths = 2_000_000
		opt.TimeoutMS = 120000
		opt.Deadline = 60 * time.Minute
	}

	type pending struct {
		c         replayCase
		pkg       string
		kind      string // violation | known | witness
		clause    string
		isPanic   bool
		key       string
		label     string
		tolerated []string
		where     string
		human     []string
	}
	var pend []pending
	var hev []harnessEvidence
	engineErrors := 0
	funcs := map[string]bool{}
	assumptions := map[string]bool{}
	stubs := map[string]bool{}
	total := symx.Stats{}
	var samples []interface{}
	states, transitions := 0, 0
	var solverTime time.Duration
	incomplete := []string{}
	for _, h := range mine {
		sp := prog.Pkgs[modPath+"/pkg/"+h.Pkg]
		fn := sp.Func(h.Name)
		if fn == nil {
			fmt.Fprintf(os.Stderr, "harness %s not found in SSA\n", h.Name)
			return 2
		}
		rep := prog.Explore(fn, opt)
		st := rep.Stats
		fmt.Printf("harness %-44s paths=%-6d oblig=%-6d discharged=%-6d viol=%d known=%d inconcl=%d unsupported=%d unwind=%d  %.1fs (solver %.1fs, %d queries)\n",
			h.Name, st.Paths, st.Obligations, st.Discharged, st.Violations, st.KnownHits, st.Inconclusive, st.Abandoned, st.UnwindFailures,
			rep.Wall.Seconds(), rep.SolverTime.Seconds(), rep.Queries)
		if r.verbose {
			for k, v := range rep.EndReasons {
				fmt.Printf("    end: %-80s %d\n", k, v)
			}
			fmt.Printf("    merges: %d\n", rep.Merges)
			for k, v := range rep.MergeFail {
				fmt.Printf("    merge-fallback: %-70s %d\n", k, v)
			}
			for _, n := range rep.Notes {
				fmt.Printf("    note: %s\n", n)
			}
			for _, f := range rep.Failures {
				fmt.Printf("    failing clause [%s]: %s\n", f.Known, f.Clause)
			}
		}
		for k, v := range st.AbandonReasons {
			fmt.Printf("    unsupported: %s (x%d)\n", k, v)
		}
		for k, v := range st.InconclusiveClauses {
			fmt.Printf("    inconclusive: %s (x%d)\n", k, v)
		}
		if rep.Incomplete != "" {
			fmt.Printf("    INCOMPLETE: %s\n", rep.Incomplete)
			incomplete = append(incomplete, h.Name+": "+rep.Incomplete)
		}
		if st.Abandoned > 0 || st.UnwindFailures > 0 || st.Inconclusive > 0 {
			engineErrors++
		}
		hev = append(hev, harnessEvidence{Harness: h.Name, Paths: st.Paths, Decisions: st.Decisions, Obligations: st.Obligations,
			Discharged: st.Discharged, Violations: st.Violations, KnownHits: st.KnownHits, Inconclusive: st.Inconclusive,
			Abandoned: st.Abandoned, Unwind: st.UnwindFailures, Reached: rep.Reached, Bounds: rep.Bounds, EndReasons: rep.EndReasons,
			SolverTimeS: rep.SolverTime.Seconds(), Queries: rep.Queries, CacheHits: rep.CacheHits, WallS: rep.Wall.Seconds(),
			Incomplete: rep.Incomplete, FloatErrVars: rep.FloatErrVars, AbandonWhy: st.AbandonReasons, InconclWhy: st.InconclusiveClauses, Merges: rep.Merges})
		states += st.Paths
		transitions += st.Decisions + st.Obligations
		solverTime += rep.SolverTime
		total.Obligations += st.Obligations
		total.Discharged += st.Discharged
		total.Inconclusive += st.Inconclusive
		total.Abandoned += st.Abandoned
		for _, f := range rep.Funcs {
			funcs[f] = true
		}
		for _, a := range rep.Assumptions {
			assumptions[a] = true
		}
		for s := range rep.StubsUsed {
			stubs[s] = true
		}
		// vacuity guard: a harness that reaches no label proves nothing
		if len(rep.Reached) == 0 {
			fmt.Printf("    ENGINE: harness %s reached no zzvReach label (vacuous)\n", h.Name)
			engineErrors++
		}
		for i, f := range rep.Failures {
			vals, human := modelVals(f.Nondets, f.Model)
			id := fmt.Sprintf("%s#f%d", h.Name, i)
			kind := "violation"
			if f.Known != "" {
				kind = "known"
			}
			pend = append(pend, pending{c: replayCase{ID: id, Harness: h.Name, Tier: r.tier, Vals: vals}, pkg: h.Pkg, kind: kind,
				clause: f.Clause, isPanic: f.Panic, key: f.Known, where: f.Pos, human: human})
			if len(samples) < 12 {
				samples = append(samples, map[string]interface{}{"harness": h.Name, "obligation": f.Clause, "verdict": "sat (" + kind + ")", "model": human, "at": f.Pos})
			}
		}
		for i, w := range rep.Witnesses {
			vals, human := modelVals(w.Nondets, w.Model)
			id := fmt.Sprintf("%s#w%d", h.Name, i)
			pend = append(pend, pending{c: replayCase{ID: id, Harness: h.Name, Tier: r.tier, Vals: vals}, pkg: h.Pkg, kind: "witness", label: w.Label, human: human, tolerated: w.KnownClauses})
			if len(samples) < 12 {
				samples = append(samples, map[string]interface{}{"harness": h.Name, "reach_label": w.Label, "verdict": "all obligations on this path unsat", "witness_inputs": human})
			}
		}
	}

	// ---- native replays ----
	validated, spurious, divergent := 0, 0, 0
	violLines := []string{}
	knownConfirmed := map[string]bool{}
	var spuriousKnown []string
	violReported := map[string]bool{}
	notRepro := map[string][]string{}
	if !r.noReplay && len(pend) > 0 {
		byPkg := map[string][]replayCase{}
		for _, p := range pend {
			byPkg[p.pkg] = append(byPkg[p.pkg], p.c)
		}
		outs := map[string]replayOut{}
		for pkg, cs := range byPkg {
			o, err := nativeReplay(pkg, cs)
			if err != nil {
				fmt.Fprintf(os.Stderr, "native replay failed: %v\n", err)
				return 2
			}
			for k, v := range o {
				outs[k] = v
			}
		}
		os.MkdirAll(filepath.Join(verifDir, "replays"), 0o755)
		for _, p := range pend {
			o := outs[p.c.ID]
			switch p.kind {
			case "witness":
				ok := o.AssumeViolated == "" && o.Panic == "" && !o.Overrun
				for _, f := range o.Failed {
					tol := false
					for _, t := range p.tolerated {
						if t == f {
							tol = true
						}
					}
					if !tol {
						ok = false
					}
				}
				found := false
				for _, l := range o.Reached {
					if l == p.label {
						found = true
					}
				}
				if ok && found {
					validated++
				} else {
					divergent++
					fmt.Printf("    ENGINE: witness for label %q of %s does not replay natively (failed=%v panic=%q assume=%q reached=%v) inputs=%v\n",
						p.label, p.c.Harness, o.Failed, o.Panic, o.AssumeViolated, o.Reached, p.human)
				}
			case "violation", "known":
				ck := p.c.Harness + "|" + p.clause
				if reproduced(p.clause, p.isPanic, o) {
					validated++
					if p.kind == "known" {
						knownConfirmed[p.key] = true
						continue
					}
					if violReported[ck] {
						continue // one VIOLATION line per harness and clause
					}
					violReported[ck] = true
					rf := replayFile{Property: r.prop, Package: p.pkg, Clause: p.clause, IsPanic: p.isPanic, Where: p.where, Inputs: p.human, Case: p.c}
					path := filepath.Join(verifDir, "replays", fmt.Sprintf("%s_%s.json", r.prop, sanitize(p.c.ID)))
					b, _ := json.MarshalIndent(rf, "", " ")
					os.WriteFile(path, b, 0o644)
					fmt.Printf("    violated: %s  [%s]  at %s\n      inputs: %v\n      native: failed=%v panic=%q\n", p.clause, p.c.Harness, p.where, p.human, o.Failed, o.Panic)
					violLines = append(violLines, fmt.Sprintf("VIOLATION property=%s replay=%s", r.prop, path))
				} else if p.kind == "known" {
					// a model in a listed finding's region that does not replay: tolerated if the same
					// finding is confirmed by another counterexample of this run (decided below)
					spuriousKnown = append(spuriousKnown, p.key)
					fmt.Printf("    note: a counterexample in the region of %s for %q did not replay natively (inputs=%v)\n", p.key, p.clause, p.human)
				} else {
					// decided after all counterexamples of the clause were replayed (below)
					notRepro[ck] = append(notRepro[ck], fmt.Sprintf("    SPURIOUS (%s): solver counterexample for %q in %s does not reproduce natively (failed=%v panic=%q assume=%q) inputs=%v at %s",
						p.kind, p.clause, p.c.Harness, o.Failed, o.Panic, o.AssumeViolated, p.human, p.where))
				}
			}
		}
	}
	// a clause none of whose counterexamples reproduced: the encoding, a stub or the replay rig is
	// wrong for it - no verdict. If another counterexample of the same clause reproduced, the
	// ones that did not are environment faults the native rig cannot realise (noted only).
	for ck, lines := range notRepro {
		if violReported[ck] {
			fmt.Printf("    note: %d further counterexample(s) of %q could not be realised natively\n", len(lines), ck)
			continue
		}
		spurious++
		fmt.Println(lines[0])
	}
	for _, key := range spuriousKnown {
		if !knownConfirmed[key] {
			spurious++
			fmt.Printf("    SPURIOUS (known): no counterexample in the region of %s replayed natively\n", key)
		}
	}
	for key := range knownConfirmed {
		kf := known[key]
		fmt.Printf("KNOWN-FINDING: property=%s %s\n", r.prop, kf.Text)
	}

	// ---- evidence ----
	var fl []string
	for f := range funcs {
		fl = append(fl, f)
	}
	sort.Strings(fl)
	var al []string
	for a := range assumptions {
		al = append(al, a)
	}
	al = append(al, "floats are reals with one bounded rounding-error variable per operation; NaN/Inf and magnitudes above the stated bound are outside the claim",
		"Go map iteration order is insertion order in the engine (not modelled as nondeterminism)",
		"slice growth as in the go1.23 runtime (growslice size classes)",
		"std-library functions run natively on concrete arguments; symbolic models/stubs listed under stubs_used")
	sort.Strings(al)
	var sl []string
	for s := range stubs {
		sl = append(sl, s)
	}
	sort.Strings(sl)
	var kc []string
	for k := range knownConfirmed {
		kc = append(kc, k)
	}
	sort.Strings(kc)
	if len(samples) == 0 {
		samples = append(samples, map[string]interface{}{"note": "no witness recorded"})
	}
	ev := map[string]interface{}{
		"property_id": r.prop,
		"tier":        r.tier,
		"seed":        r.seed,
		"level":       "model_checking",
		"coverage": map[string]interface{}{
			"states":                        max1(states),
			"transitions":                   max1(transitions),
			"traces_validated_against_impl": validated,
			"samples":                       samples,
			"obligations":                   total.Obligations,
			"discharged":                    total.Discharged,
			"inconclusive":                  total.Inconclusive,
			"unsupported_paths":             total.Abandoned,
			"spurious_counterexamples":      spurious,
			"divergent_witnesses":           divergent,
			"functions_encoded":             fl,
			"harnesses":                     hev,
			"stubs_used":                    sl,
			"known_findings_confirmed":      kc,
			"solver":                        envOr("VERIF_Z3", "z3-new") + " -in, one process per worker (z3-new = z3 5.1.0; z3 = 4.8.12)",
			"solver_time_s":                 solverTime.Seconds(),
			"load_and_ssa_build_s":          loadT.Seconds(),
			"exhaustive":                    len(incomplete) == 0 && engineErrors == 0,
			"explanation":                   "states = feasible paths explored symbolically; transitions = solver-decided branches + obligations; every obligation is the query path-condition AND NOT clause over all inputs within the bounds; encoding regenerated from /repo's working tree (go/ssa) on this run",
		},
		"assumptions": al,
		"wall_s":      time.Since(r.t0).Seconds(),
		"violations":  len(violLines),
	}
	os.MkdirAll(filepath.Join(verifDir, "evidence"), 0o755)
	b, _ := json.MarshalIndent(ev, "", " ")
	if err := os.WriteFile(filepath.Join(verifDir, "evidence", r.prop+".json"), b, 0o644); err != nil {
		fmt.Fprintln(os.Stderr, err)
		return 2
	}
	for _, l := range violLines {
		fmt.Println(l)
	}
	if len(violLines) > 0 {
		return 1
	}
	if r.noReplay && len(pend) > 0 {
		fmt.Printf("NO-REPLAY: %d solver models (violations/known/witnesses) were not replayed; no verdict\n", len(pend))
		return 2
	}
	if engineErrors > 0 || spurious > 0 || divergent > 0 || len(incomplete) > 0 {
		fmt.Printf("CHECK-ERROR property=%s: engine_errors=%d spurious=%d divergent_witnesses=%d incomplete=%v (no verdict; not a violation)\n",
			r.prop, engineErrors, spurious, divergent, incomplete)
		return 2
	}
	fmt.Printf("OK property=%s tier=%s: %d paths, %d obligations discharged, %d native replays, %.1fs\n", r.prop, r.tier, states, total.Discharged, validated, time.Since(r.t0).Seconds())
	return 0
}

func max1(n int) int {
	if n < 1 {
		return 1
	}
	return n
}

func sanitize(s string) string {
	return strings.Map(func(r rune) rune {
		if r >= 'a' && r <= 'z' || r >= 'A' && r <= 'Z' || r >= '0' && r <= '9' || r == '_' {
			return r
		}
		return '_'
	}, s)
}

// matchOnly: "" = all; "=X" = harness name ends with "_X"; otherwise substring.
func matchOnly(name, only string) bool {
	if only == "" {
		return true
	}
	for _, o := range strings.Split(only, ",") {
		if strings.HasPrefix(o, "=") {
			if strings.HasSuffix(name, "_"+o[1:]) {
				return true
			}
		} else if strings.Contains(name, o) {
			return true
		}
	}
	return false
}
