// vcheck: driver of the gosx symbolic checks. See /verif/DESIGN.md §8.
//
//	vcheck run <PROPERTY> [--tier quick|thorough] [-j N] [--only harnessSubstring] [-v]
//	vcheck replay <replay-file>
//	vcheck externals
package main

import (
	"encoding/json"
	"flag"
	"fmt"
	"os"
	"os/exec"
	"path/filepath"
	"regexp"
	"sort"
	"strconv"
	"strings"
	"time"

	"gosx/symx"
)

var (
	verifDir = envOr("VERIF_DIR", "/verif")
	repoDir  = envOr("VERIF_REPO", "/repo")
)

func envOr(k, d string) string {
	if v := os.Getenv(k); v != "" {
		return v
	}
	return d
}

const modPath = "github.com/zerx-lab/wordZero"

var pkgs = []string{"document", "style", "markdown"}

type harnessSrc struct {
	Pkg  string
	Name string
}

var reHarness = regexp.MustCompile(`(?m)^func (ZZH_(C[0-9]+)_[A-Za-z0-9_]+)\(\)`)

// buildOverlay assembles the virtual files: runtime twins, registry, harness sources.
func buildOverlay(withTest bool) (map[string][]byte, []harnessSrc, error) {
	overlay := map[string][]byte{}
	var hs []harnessSrc
	rt, err := os.ReadFile(filepath.Join(verifDir, "harness/rt/rt.go.tmpl"))
	if err != nil {
		return nil, nil, err
	}
	rtTest, err := os.ReadFile(filepath.Join(verifDir, "harness/rt/rt_test.go.tmpl"))
	if err != nil {
		return nil, nil, err
	}
	for _, p := range pkgs {
		pdir := filepath.Join(repoDir, "pkg", p)
		hdir := filepath.Join(verifDir, "harness", p)
		ents, _ := os.ReadDir(hdir)
		var names []string
		for _, e := range ents {
			if !strings.HasSuffix(e.Name(), ".go") {
				continue
			}
			b, err := os.ReadFile(filepath.Join(hdir, e.Name()))
			if err != nil {
				return nil, nil, err
			}
			overlay[filepath.Join(pdir, "zz_verif_"+e.Name())] = b
			for _, m := range reHarness.FindAllStringSubmatch(string(b), -1) {
				names = append(names, m[1])
				hs = append(hs, harnessSrc{p, m[1]})
			}
		}
		overlay[filepath.Join(pdir, "zz_verif_rt.go")] = []byte(strings.Replace(string(rt), "PKGNAME", p, 1))
		var reg strings.Builder
		fmt.Fprintf(&reg, "package %s\n\nvar zzvHarnesses = map[string]func(){\n", p)
		sort.Strings(names)
		for _, n := range names {
			fmt.Fprintf(&reg, "\t%q: %s,\n", n, n)
		}
		reg.WriteString("}\n")
		overlay[filepath.Join(pdir, "zz_verif_registry.go")] = []byte(reg.String())
		if withTest {
			overlay[filepath.Join(pdir, "zz_verif_rt_test.go")] = []byte(strings.Replace(string(rtTest), "PKGNAME", p, 1))
		}
	}
	return overlay, hs, nil
}

func loadProgram() (*symx.Program, []harnessSrc, error) {
	overlay, hs, err := buildOverlay(false)
	if err != nil {
		return nil, nil, err
	}
	cfg := &symx.Config{
		RepoDir:     repoDir,
		Patterns:    []string{"./pkg/document", "./pkg/style", "./pkg/markdown"},
		Overlay:     overlay,
		InterpPkgs:  []string{modPath, "github.com/yuin/goldmark/ast", "github.com/yuin/goldmark/extension/ast", "github.com/yuin/goldmark/text"},
		InterpFuncs: symx.DefaultInterpFuncs(),
	}
	p, err := symx.Load(cfg)
	return p, hs, err
}

func main() {
	if len(os.Args) < 2 {
		fmt.Fprintln(os.Stderr, "usage: vcheck run|replay|externals ...")
		os.Exit(2)
	}
	switch os.Args[1] {
	case "externals":
		p, _, err := loadProgram()
		if err != nil {
			fmt.Fprintln(os.Stderr, err)
			os.Exit(2)
		}
		for _, e := range p.ExternalCallees() {
			fmt.Println(e)
		}
	case "run":
		os.Exit(cmdRun(os.Args[2:]))
	case "replay":
		os.Exit(cmdReplay(os.Args[2:]))
	default:
		fmt.Fprintln(os.Stderr, "unknown command")
		os.Exit(2)
	}
}

func cmdRun(args []string) int {
	fs := flag.NewFlagSet("run", flag.ExitOnError)
	tier := fs.String("tier", envOr("VERIF_TIER", "quick"), "quick|thorough")
	workers := fs.Int("j", 0, "workers")
	only := fs.String("only", "", "run only harnesses whose name contains this")
	verbose := fs.Bool("v", false, "verbose")
	noReplay := fs.Bool("no-replay", false, "skip native replays (debugging only; evidence says so)")
	if len(args) < 1 {
		fmt.Fprintln(os.Stderr, "usage: vcheck run <PROPERTY> [flags]")
		return 2
	}
	prop := args[0]
	fs.Parse(args[1:])
	if *workers == 0 {
		*workers = 12
		if *tier == "thorough" {
			*workers = 16
		}
	}
	seed, _ := strconv.Atoi(os.Getenv("VERIF_SEED"))
	r := &runner{prop: prop, tier: *tier, workers: *workers, only: *only, verbose: *verbose, noReplay: *noReplay, seed: seed, t0: time.Now()}
	return r.run()
}

func cmdReplay(args []string) int {
	if len(args) < 1 {
		fmt.Fprintln(os.Stderr, "usage: vcheck replay <file>")
		return 2
	}
	data, err := os.ReadFile(args[0])
	if err != nil {
		fmt.Fprintln(os.Stderr, err)
		return 2
	}
	var rf replayFile
	if err := json.Unmarshal(data, &rf); err != nil {
		fmt.Fprintln(os.Stderr, err)
		return 2
	}
	outs, err := nativeReplay(rf.Package, []replayCase{rf.Case})
	if err != nil {
		fmt.Fprintln(os.Stderr, err)
		return 2
	}
	o := outs[rf.Case.ID]
	fmt.Printf("replay of %s (%s): failed=%v panic=%q reached=%v\n", rf.Case.Harness, rf.Clause, o.Failed, o.Panic, o.Reached)
	if reproduced(rf.Clause, rf.IsPanic, o) {
		fmt.Printf("VIOLATION property=%s replay=%s\n", rf.Property, args[0])
		return 1
	}
	fmt.Println("not reproduced on the current tree")
	return 0
}

// goEnv is the environment for go commands run by the checks.
func goEnv() []string {
	env := os.Environ()
	env = append(env, "GOFLAGS=-mod=mod", "GOPROXY=off", "GOSUMDB=off", "GOTOOLCHAIN=local", "GOWORK=off")
	return env
}

func runCmd(dir string, env []string, timeout time.Duration, name string, args ...string) (string, error) {
	cmd := exec.Command(name, args...)
	cmd.Dir = dir
	cmd.Env = env
	done := make(chan struct{})
	var out []byte
	var err error
	go func() {
		out, err = cmd.CombinedOutput()
		close(done)
	}()
	select {
	case <-done:
	case <-time.After(timeout):
		if cmd.Process != nil {
			cmd.Process.Kill()
		}
		<-done
		err = fmt.Errorf("timeout after %v", timeout)
	}
	return string(out), err
}
